#!/bin/sh
# usage: confirm8.sh Cxx name
unset GOSUMDB GOTOOLCHAIN GOWORK
export GOFLAGS=-mod=mod GOPROXY=off
p=$1; n=$2; wt=/tmp/w8-$p; o=/tmp/o8-$p/$n
rundemo() { ( cd $o/demo && if ls *_test.go >/dev/null 2>&1 && ! grep -q "func main" *.go 2>/dev/null; then go test -count=1 ./... ; else go run ${RACE:+-race} . ; fi ) >/tmp/confirm8-$p-$n.$1.log 2>&1; echo $?; }
git -C $wt checkout -q -- . ; git -C $wt clean -fdq
a=$(rundemo clean)
git -C $wt apply $o/patch.diff || { echo "$p/$n: PATCH DOES NOT APPLY"; exit 1; }
( cd $wt && go build ./... ) >/tmp/confirm8-$p-$n.build.log 2>&1; b=$?
( cd $wt && go test -vet=off -count=1 ./... ) >/tmp/confirm8-$p-$n.test.log 2>&1; t=$?
c=$(rundemo patched)
git -C $wt checkout -q -- . ; git -C $wt clean -fdq
d=$(rundemo clean2)
echo "$p/$n: demo-clean=$a build=$b tests=$t demo-patched=$c demo-reverted=$d"
