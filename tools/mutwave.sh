#!/bin/sh
# usage: tools/mutwave.sh <tier> [name-prefix]   run every own mutant against the check of its property (4 at a time)
tier="${1:-quick}"; pre="$2"
cd /verif
ls mutants | grep "^$pre" | xargs -P 2 -I{} sh -c '
  prop=$(python3 -c "import json;print(json.load(open(\"mutants/{}/meta.json\"))[\"property\"])")
  out=$(tools/mutest.sh mutants/{}/patch.diff '"$tier"' $prop 2>&1)
  if echo "$out" | grep -q "^VIOLATION"; then res=CAUGHT; elif echo "$out" | grep -q "^ERROR\|patch does not\|does not build"; then res=ERROR; else res=MISSED; fi
  echo "{} $prop $res $(echo "$out" | grep -m1 "oracle=" | cut -c1-150)"
'
