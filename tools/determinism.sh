#!/bin/sh
# usage: tools/determinism.sh <sims> [properties...]
# Proves the simulator deterministic: the same simulations are executed in several
# driver processes with different driver parallelism and worker GOMAXPROCS; the
# digests of everything observable (event traces, tree snapshots, errors,
# scheduler choices) must be identical per scenario.
sims="${1:-30}"; shift
props="${*:-C01 C02 C04 C05 C06 C07 C08 C13 C20}"
cd /verif; d=$(mktemp -d /dev/shm/verif-det-XXXX); mkdir -p $d/out; cp known_findings.json properties.jsonl $d/out/; trap 'rm -rf $d' EXIT
rc=0
for p in $props; do
  n=0
  for cfg in "16 0" "3 1" "6 4" "16 16"; do
    set -- $cfg; n=$((n+1))
    VERIF_DIR=$d/out VERIF_HARNESS=/verif/harness VERIF_SIMS=$sims VERIF_BUDGET_S=3000 VERIF_PAR=$1 VERIF_WORKER_GOMAXPROCS=$2 \
      VERIF_DIGEST_FILE=$d/$p.$n.raw ./bin/verif check $p quick >/dev/null 2>&1
    grep -v "race-leg-not-deterministic" $d/$p.$n.raw | sort > $d/$p.$n
  done
  lines=$(wc -l < $d/$p.1)
  bad=0
  for k in 2 3 4; do
    if ! cmp -s $d/$p.1 $d/$p.$k; then bad=1; echo "DIVERGENCE property=$p config#$k:"; diff $d/$p.1 $d/$p.$k | head -5; fi
  done
  if [ $bad = 0 ]; then echo "deterministic: $p ($lines scenario digests x 4 configurations)"; else rc=2; fi
done
exit $rc
