#!/bin/sh
# usage: tools/mutest.sh <patch.diff> <tier> <property>...
# Applies a seeded change to a scratch worktree of /repo (never to /repo itself),
# runs the named checks against that tree and removes the worktree again.
# Evidence and replays of these runs go to a scratch directory, not to /verif.
patch=$(readlink -f "$1"); tier="$2"; shift 2
id=$$
wt=/tmp/mt-$id
out=/tmp/mt-$id-out
unset GOSUMDB GOTOOLCHAIN GOWORK
export GOFLAGS=-mod=mod GOPROXY=off
# MUTEST_BASE: the commit of /repo the patch was written against (default HEAD)
git -C /repo worktree add -q --detach "$wt" "${MUTEST_BASE:-HEAD}" || exit 2
trap 'git -C /repo worktree remove --force "$wt" >/dev/null 2>&1; rm -rf "$out"' EXIT
# (a stored change may have been written against an earlier commit of /repo: fall back to a three-way merge)
git -C "$wt" apply "$patch" 2>/dev/null || git -C "$wt" apply -3 "$patch" >/dev/null 2>&1 || { echo "patch does not apply"; exit 2; }
if grep -rl '^<<<<<<< ' "$wt/pkg" "$wt/devpkg" >/dev/null 2>&1; then echo "patch does not apply (conflict)"; exit 2; fi
( cd "$wt" && go build ./... ) || { echo "does not build"; exit 2; }
mkdir -p "$out"; cp /verif/known_findings.json "$out/"; cp /verif/properties.jsonl "$out/"
rc=0
for p in "$@"; do
  VERIF_REPO="$wt" VERIF_DIR="$out" VERIF_HARNESS=/verif/harness /verif/bin/verif check "$p" "$tier" 2>&1 | grep -E "^(VIOLATION|KNOWN|ERROR|  oracle|property=)" 
done
exit 0
