#!/bin/sh
# usage: tools/seededwave.sh <tier> [id-prefix]   every stored seeded change against the check of its property (3 at a time)
tier="${1:-quick}"; pre="$2"
cd /verif
# (changes whose meta.json says skip_in_waves - outside every property's quantifier, or neutralised by a later fix - are listed, not run)
ls seeded | grep "^$pre" | while read id; do if grep -q '"skip_in_waves": true' seeded/$id/meta.json; then echo "$id - SKIPPED (see meta.json)" >&2; else echo $id; fi; done | xargs -P 3 -I{} sh -c '
  prop=$(python3 -c "import json;print(json.load(open(\"seeded/{}/meta.json\"))[\"property\"])")
  out=$(tools/mutest.sh seeded/{}/patch.diff '"$tier"' $prop 2>&1)
  if echo "$out" | grep -q "^VIOLATION"; then res=CAUGHT; elif echo "$out" | grep -q "^ERROR\|patch does not\|does not build"; then res=ERROR; else res=MISSED; fi
  echo "{} $prop $res $(echo "$out" | grep -m1 "oracle=" | cut -c1-120)"
'
