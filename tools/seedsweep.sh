#!/bin/sh
# usage: tools/seedsweep.sh <tier> <seed>...   every check once per seed on /repo; evidence/replays go to a scratch dir
tier="$1"; shift
cd /verif; out=$(mktemp -d /dev/shm/verif-sweep-XXXX); trap 'rm -rf $out' EXIT
cp known_findings.json properties.jsonl $out/
for s in "$@"; do for p in C01 C02 C04 C05 C06 C07 C08 C13 C20; do
  r=$(VERIF_SEED=$s VERIF_DIR=$out VERIF_HARNESS=/verif/harness ./bin/verif check $p $tier 2>&1 | grep -E "^(VIOLATION|ERROR|  oracle|property=)" | tr '\n' ' ' | cut -c1-400)
  echo "seed=$s $r"
  if echo "$r" | grep -q "VIOLATION\|ERROR"; then mkdir -p /tmp/sweep-replays; cp -r $out/replays/* /tmp/sweep-replays/ 2>/dev/null; fi
done; done
