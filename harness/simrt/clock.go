package simrt

import (
	"strconv"
	"strings"
	"sync"
	"time"
)

// The simulated clock. gengo's own code reads time only through Now, Since, Until and Sleep below
// (the rewriter replaces the qualifier of time.Now etc. in the instrumented packages); the worker
// calls Tick at every recorded event.
var clock struct {
	mu     sync.Mutex
	policy string
	stepMS int64
	rng    uint64
	now    time.Time
	reads  int
	ticks  int
}

func resetClock(s Schedule) {
	clock.mu.Lock()
	defer clock.mu.Unlock()
	clock.policy = s.Clock
	clock.stepMS = 0
	if strings.HasPrefix(s.Clock, "slow:") {
		clock.policy = "slow"
		clock.stepMS, _ = strconv.ParseInt(s.Clock[len("slow:"):], 10, 64)
	}
	clock.rng = s.Seed*0x9e3779b97f4a7c15 + 0x1234567
	// simulated time starts at the machine's time of the request: it stays comparable with the
	// modification times of the files of the world (no absolute time reaches any output)
	clock.now = time.Now()
	clock.reads, clock.ticks = 0, 0
}

func clockRand() uint64 {
	clock.rng += 0x9e3779b97f4a7c15
	z := clock.rng
	z = (z ^ (z >> 30)) * 0xbf58476d1ce4e5b9
	z = (z ^ (z >> 27)) * 0x94d049bb133111eb
	return z ^ (z >> 31)
}

// Tick lets simulated time pass for one recorded event.
func Tick() {
	clock.mu.Lock()
	defer clock.mu.Unlock()
	clock.ticks++
	switch clock.policy {
	case "slow":
		clock.now = clock.now.Add(time.Duration(clock.stepMS) * time.Millisecond)
	case "jumpy":
		r := clockRand()
		clock.now = clock.now.Add(time.Duration(r%20) * time.Millisecond)
		switch (r >> 8) % 60 {
		case 0:
			clock.now = clock.now.Add(time.Hour)
		case 1:
			clock.now = clock.now.Add(-30 * time.Minute)
		}
	}
}

// ClockReads reports how often gengo read the simulated clock since the last Reset.
func ClockReads() int {
	clock.mu.Lock()
	defer clock.mu.Unlock()
	return clock.reads
}

// Now is time.Now for instrumented code.
func Now() time.Time {
	clock.mu.Lock()
	defer clock.mu.Unlock()
	clock.reads++
	if clock.policy == "" {
		return time.Now()
	}
	return clock.now
}

// Since is time.Since for instrumented code.
func Since(t time.Time) time.Duration { return Now().Sub(t) }

// Until is time.Until for instrumented code.
func Until(t time.Time) time.Duration { return t.Sub(Now()) }

// Sleep is time.Sleep for instrumented code: simulated time passes, real time does not.
func Sleep(d time.Duration) {
	clock.mu.Lock()
	if clock.policy == "" {
		clock.mu.Unlock()
		time.Sleep(d)
		return
	}
	clock.reads++
	if d > 0 {
		clock.now = clock.now.Add(d)
	}
	clock.mu.Unlock()
}
