// Package simrt is the run-time half of the order seam. The build overlay
// rewrites every iteration over a map (range, maps.Keys, reflect MapKeys,
// sync.Map.Range) in gengo into a call of this package, which yields the same
// entries in an order chosen by the simulator's schedule instead of by the Go
// runtime. Every order produced here is one the runtime could have produced,
// so the instrumented program is a legal execution of the original.
package simrt

import (
	"fmt"
	"go/ast"
	"go/token"
	"go/types"
	"hash/fnv"
	"iter"
	"reflect"
	"sort"
	"strconv"
	"strings"
	"sync"
)

// Schedule decides the order at every site.
type Schedule struct {
	// Default policy: "asc", "desc", "rot:<k>", "shuf". "" means "asc".
	Default string `json:"default,omitempty"`
	// Overrides per site id ("pkg/gengo/context.go:183").
	Overrides map[string]string `json:"overrides,omitempty"`
	// Seed of the shuffles.
	Seed uint64 `json:"seed,omitempty"`
}

// SiteStat is reported to the driver after a run.
type SiteStat struct {
	Visits       int `json:"visits"`
	MultiVisits  int `json:"multi"` // visits with >= 2 entries (order matters)
	Uncontrolled int `json:"uncontrolled"`
}

var (
	mu     sync.Mutex
	sched  Schedule
	visits = map[string]int{}
	stats  = map[string]*SiteStat{}
	fset   *token.FileSet
)

// Reset installs the schedule of the next run and clears visit counters.
func Reset(s Schedule) {
	mu.Lock()
	defer mu.Unlock()
	sched = s
	visits = map[string]int{}
	stats = map[string]*SiteStat{}
	fset = nil
}

// Stats returns the per-site counters since the last Reset.
func Stats() map[string]SiteStat {
	mu.Lock()
	defer mu.Unlock()
	out := map[string]SiteStat{}
	for k, v := range stats {
		out[k] = *v
	}
	return out
}

// FileSet registers the file set positions of ast/types keys are resolved in.
func FileSet(f *token.FileSet, site string) *token.FileSet {
	mu.Lock()
	fset = f
	mu.Unlock()
	return f
}

// CurrentFileSet returns the last registered file set (may be nil).
func CurrentFileSet() *token.FileSet {
	mu.Lock()
	defer mu.Unlock()
	return fset
}

func posKey(p token.Pos) (string, bool) {
	mu.Lock()
	f := fset
	mu.Unlock()
	if f == nil || !p.IsValid() {
		return "", false
	}
	pp := f.Position(p)
	if pp.Filename == "" {
		return "", false
	}
	return fmt.Sprintf("%s\x00%012d", pp.Filename, pp.Offset), true
}

// sortKey returns a canonical, run-independent key for k.
func sortKey(k any) (string, bool) {
	switch x := k.(type) {
	case string:
		return "s" + x, true
	case bool:
		if x {
			return "b1", true
		}
		return "b0", true
	case int:
		return intKey(int64(x)), true
	case int8:
		return intKey(int64(x)), true
	case int16:
		return intKey(int64(x)), true
	case int32:
		return intKey(int64(x)), true
	case int64:
		return intKey(x), true
	case uint:
		return uintKey(uint64(x)), true
	case uint8:
		return uintKey(uint64(x)), true
	case uint16:
		return uintKey(uint64(x)), true
	case uint32:
		return uintKey(uint64(x)), true
	case uint64:
		return uintKey(x), true
	case uintptr:
		return uintKey(uint64(x)), true
	case float32:
		return "f" + strconv.FormatFloat(float64(x), 'e', -1, 64), true
	case float64:
		return "f" + strconv.FormatFloat(x, 'e', -1, 64), true
	case *ast.Ident:
		if x == nil {
			return "", false
		}
		if pk, ok := posKey(x.Pos()); ok {
			return "p" + pk + "\x00" + x.Name, true
		}
		return "", false
	case ast.Node:
		if x == nil || reflect.ValueOf(x).IsNil() {
			return "", false
		}
		if pk, ok := posKey(x.Pos()); ok {
			return "p" + pk + "\x00" + fmt.Sprintf("%T", x), true
		}
		return "", false
	case types.Object:
		if x == nil || reflect.ValueOf(x).IsNil() {
			return "", false
		}
		pkg := ""
		if x.Pkg() != nil {
			pkg = x.Pkg().Path()
		}
		if pk, ok := posKey(x.Pos()); ok {
			return "o" + pkg + "\x00" + pk + "\x00" + x.Name(), true
		}
		return "", false
	case *types.Named:
		if x == nil {
			return "", false
		}
		return sortKey(types.Object(x.Obj()))
	case reflect.Value:
		return reflectKey(x)
	}
	rv := reflect.ValueOf(k)
	if rv.IsValid() {
		switch rv.Kind() {
		case reflect.String, reflect.Bool, reflect.Int, reflect.Int8, reflect.Int16, reflect.Int32, reflect.Int64,
			reflect.Uint, reflect.Uint8, reflect.Uint16, reflect.Uint32, reflect.Uint64, reflect.Uintptr,
			reflect.Float32, reflect.Float64:
			return reflectKey(rv)
		case reflect.Struct, reflect.Array:
			// structs/arrays of orderable fields (e.g. {file string; line int})
			var sb strings.Builder
			n := 0
			if rv.Kind() == reflect.Struct {
				n = rv.NumField()
			} else {
				n = rv.Len()
			}
			for i := 0; i < n; i++ {
				var fv reflect.Value
				if rv.Kind() == reflect.Struct {
					fv = rv.Field(i)
				} else {
					fv = rv.Index(i)
				}
				s, ok := reflectKey(fv)
				if !ok {
					return "", false
				}
				sb.WriteString(s)
				sb.WriteByte(0)
			}
			return "t" + sb.String(), true
		}
	}
	return "", false
}

func intKey(v int64) string {
	// order-preserving: offset by 2^63
	return fmt.Sprintf("i%020d", uint64(v)+(1<<63))
}

func uintKey(v uint64) string { return fmt.Sprintf("u%020d", v) }

func reflectKey(v reflect.Value) (string, bool) {
	if !v.IsValid() {
		return "", false
	}
	switch v.Kind() {
	case reflect.String:
		return "s" + v.String(), true
	case reflect.Bool:
		if v.Bool() {
			return "b1", true
		}
		return "b0", true
	case reflect.Int, reflect.Int8, reflect.Int16, reflect.Int32, reflect.Int64:
		return intKey(v.Int()), true
	case reflect.Uint, reflect.Uint8, reflect.Uint16, reflect.Uint32, reflect.Uint64, reflect.Uintptr:
		return uintKey(v.Uint()), true
	case reflect.Float32, reflect.Float64:
		return "f" + strconv.FormatFloat(v.Float(), 'e', -1, 64), true
	case reflect.Interface:
		if v.IsNil() {
			return "n", true
		}
		return reflectKey(v.Elem())
	}
	return "", false
}

func splitmix(x uint64) uint64 {
	x += 0x9e3779b97f4a7c15
	x = (x ^ (x >> 30)) * 0xbf58476d1ce4e5b9
	x = (x ^ (x >> 27)) * 0x94d049bb133111eb
	return x ^ (x >> 31)
}

// order returns the permutation (indices into the canonically sorted key
// list) the schedule prescribes for this visit of site; ok=false means the
// keys have no canonical order and the runtime order is kept.
func order(site string, keys []any) ([]int, bool) {
	n := len(keys)
	mu.Lock()
	visit := visits[site]
	visits[site] = visit + 1
	st := stats[site]
	if st == nil {
		st = &SiteStat{}
		stats[site] = st
	}
	st.Visits++
	if n >= 2 {
		st.MultiVisits++
	}
	policy := sched.Default
	if o, ok := sched.Overrides[site]; ok {
		policy = o
	}
	seed := sched.Seed
	mu.Unlock()

	idx := make([]int, n)
	for i := range idx {
		idx[i] = i
	}
	if n < 2 {
		return idx, true
	}
	sk := make([]string, n)
	for i, k := range keys {
		s, ok := sortKey(k)
		if !ok {
			mu.Lock()
			st.Uncontrolled++
			mu.Unlock()
			return idx, false
		}
		sk[i] = s
	}
	sort.SliceStable(idx, func(a, b int) bool { return sk[idx[a]] < sk[idx[b]] })
	switch {
	case policy == "" || policy == "asc":
	case policy == "desc":
		for i, j := 0, n-1; i < j; i, j = i+1, j-1 {
			idx[i], idx[j] = idx[j], idx[i]
		}
	case strings.HasPrefix(policy, "rot:"):
		k, _ := strconv.Atoi(policy[4:])
		k = ((k % n) + n) % n
		rot := append(append([]int{}, idx[k:]...), idx[:k]...)
		copy(idx, rot)
	default: // shuf
		h := fnv.New64a()
		h.Write([]byte(site))
		x := splitmix(seed ^ h.Sum64() ^ uint64(visit)*0x9e3779b97f4a7c15)
		for i := n - 1; i > 0; i-- {
			x = splitmix(x)
			j := int(x % uint64(i+1))
			idx[i], idx[j] = idx[j], idx[i]
		}
	}
	return idx, true
}

// Map iterates m in scheduled order. Entries deleted during the iteration are
// not produced; entries added during it are not produced either (both allowed
// by the language specification).
func Map[M ~map[K]V, K comparable, V any](m M, site string) iter.Seq2[K, V] {
	return func(yield func(K, V) bool) {
		keys := make([]K, 0, len(m))
		for k := range m {
			keys = append(keys, k)
		}
		anyKeys := make([]any, len(keys))
		for i, k := range keys {
			anyKeys[i] = k
		}
		idx, _ := order(site, anyKeys)
		for _, i := range idx {
			k := keys[i]
			v, ok := m[k]
			if !ok {
				continue
			}
			if !yield(k, v) {
				return
			}
		}
	}
}

// Seq re-orders a single-use iterator obtained from a map (maps.Keys/Values).
func Seq[T any](s iter.Seq[T], site string) iter.Seq[T] {
	return func(yield func(T) bool) {
		var items []T
		for v := range s {
			items = append(items, v)
		}
		anyKeys := make([]any, len(items))
		for i, k := range items {
			anyKeys[i] = k
		}
		idx, _ := order(site, anyKeys)
		for _, i := range idx {
			if !yield(items[i]) {
				return
			}
		}
	}
}

// Seq2 re-orders maps.All.
func Seq2[K, V any](s iter.Seq2[K, V], site string) iter.Seq2[K, V] {
	return func(yield func(K, V) bool) {
		var ks []K
		var vs []V
		for k, v := range s {
			ks = append(ks, k)
			vs = append(vs, v)
		}
		anyKeys := make([]any, len(ks))
		for i, k := range ks {
			anyKeys[i] = k
		}
		idx, _ := order(site, anyKeys)
		for _, i := range idx {
			if !yield(ks[i], vs[i]) {
				return
			}
		}
	}
}

// Slice re-orders a slice that was filled from a map (x/exp/maps.Keys).
func Slice[S ~[]T, T any](s S, site string) S {
	anyKeys := make([]any, len(s))
	for i, k := range s {
		anyKeys[i] = k
	}
	idx, _ := order(site, anyKeys)
	out := make(S, len(s))
	for i, j := range idx {
		out[i] = s[j]
	}
	return out
}

// ReflectKeys re-orders reflect.Value.MapKeys.
func ReflectKeys(keys []reflect.Value, site string) []reflect.Value {
	return Slice(keys, site)
}

// MapIter mirrors the part of *reflect.MapIter gengo could use.
type MapIter struct {
	keys []reflect.Value
	vals []reflect.Value
	i    int
}

// ReflectRange replaces reflect.Value.MapRange.
func ReflectRange(it *reflect.MapIter, site string) *MapIter {
	var keys []reflect.Value
	mi := &MapIter{i: -1}
	var vals []reflect.Value
	for it.Next() {
		keys = append(keys, it.Key())
		vals = append(vals, it.Value())
	}
	anyKeys := make([]any, len(keys))
	for i, k := range keys {
		anyKeys[i] = k
	}
	idx, _ := order(site, anyKeys)
	mi.keys = make([]reflect.Value, len(keys))
	mi.vals = make([]reflect.Value, len(keys))
	for i, j := range idx {
		mi.keys[i] = keys[j]
		mi.vals[i] = vals[j]
	}
	return mi
}

func (m *MapIter) Next() bool           { m.i++; return m.i < len(m.keys) }
func (m *MapIter) Key() reflect.Value   { return m.keys[m.i] }
func (m *MapIter) Value() reflect.Value { return m.vals[m.i] }

// SyncMapRange re-orders sync.Map.Range (passed as a method value).
func SyncMapRange(r func(func(k, v any) bool), site string) func(func(k, v any) bool) {
	return func(yield func(k, v any) bool) {
		var ks, vs []any
		r(func(k, v any) bool {
			ks = append(ks, k)
			vs = append(vs, v)
			return true
		})
		idx, _ := order(site, ks)
		for _, i := range idx {
			if !yield(ks[i], vs[i]) {
				return
			}
		}
	}
}

