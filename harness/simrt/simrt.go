// Package simrt is the run-time half of the order seam. The build overlay
// rewrites every iteration over a map (range, maps.Keys, reflect MapKeys,
// sync.Map.Range) in gengo into a call of this package, which yields the same
// entries in an order chosen by the simulator's schedule instead of by the Go
// runtime. Every order produced here is one the runtime could have produced,
// so the instrumented program is a legal execution of the original.
package simrt

import (
	"fmt"
	"go/ast"
	"go/token"
	"go/types"
	"hash/fnv"
	"iter"
	"reflect"
	"sort"
	"strconv"
	"strings"
	"sync"
)

// Schedule decides the order at every site.
type Schedule struct {
	// Default policy: "asc", "desc", "rot:<k>", "shuf". "" means "asc".
	Default string `json:"default,omitempty"`
	// Overrides per site id ("pkg/gengo/context.go:183").
	Overrides map[string]string `json:"overrides,omitempty"`
	// Seed of the shuffles.
	Seed uint64 `json:"seed,omitempty"`
	// Clock: what time.Now/Since/Until/Sleep inside gengo read (the rewriter routes them here).
	// "" the machine's clock; "frozen" no time passes; "slow:<ms>" every recorded event (callback or
	// file-system call) takes <ms> milliseconds; "jumpy" seeded: events take 0-20 ms, now and then the
	// clock steps forward by an hour or back by half an hour (NTP, a resumed VM).
	Clock string `json:"clock,omitempty"`
}

// SiteStat is reported to the driver after a run.
type SiteStat struct {
	Visits       int `json:"visits"`
	MultiVisits  int `json:"multi"` // visits with >= 2 entries (order matters)
	Uncontrolled int `json:"uncontrolled"`
}

var (
	mu     sync.Mutex
	sched  Schedule
	visits = map[string]int{}
	stats  = map[string]*SiteStat{}
	fset   *token.FileSet
)

// Reset installs the schedule of the next run and clears visit counters.
func Reset(s Schedule) {
	resetClock(s)
	mu.Lock()
	defer mu.Unlock()
	sched = s
	visits = map[string]int{}
	stats = map[string]*SiteStat{}
	fset = nil
	cacheMu.Lock()
	mapCache = map[cacheKey]*cacheEntry{}
	cacheMu.Unlock()
}

// Stats returns the per-site counters since the last Reset.
func Stats() map[string]SiteStat {
	mu.Lock()
	defer mu.Unlock()
	out := map[string]SiteStat{}
	for k, v := range stats {
		out[k] = *v
	}
	return out
}

// FileSet registers the file set positions of ast/types keys are resolved in.
func FileSet(f *token.FileSet, site string) *token.FileSet {
	mu.Lock()
	fset = f
	mu.Unlock()
	return f
}

// CurrentFileSet returns the last registered file set (may be nil).
func CurrentFileSet() *token.FileSet {
	mu.Lock()
	defer mu.Unlock()
	return fset
}

// skey is a canonical, run-independent sort key.
type skey struct {
	class byte
	s     string
	n     uint64
	s2    string
}

func (a skey) less(b skey) bool {
	if a.class != b.class {
		return a.class < b.class
	}
	if a.s != b.s {
		return a.s < b.s
	}
	if a.n != b.n {
		return a.n < b.n
	}
	return a.s2 < b.s2
}

func posKey(p token.Pos) (string, uint64, bool) {
	mu.Lock()
	f := fset
	mu.Unlock()
	if f == nil || !p.IsValid() {
		return "", 0, false
	}
	tf := f.File(p)
	if tf == nil {
		return "", 0, false
	}
	return tf.Name(), uint64(tf.Offset(p)), true
}

func intKey(v int64) uint64 { return uint64(v) + (1 << 63) }

// sortKey returns the canonical key of k; ok=false when its type has no
// run-independent order (pointers to things without a source position).
func sortKey(k any) (skey, bool) {
	switch x := k.(type) {
	case string:
		return skey{class: 's', s: x}, true
	case bool:
		if x {
			return skey{class: 'b', n: 1}, true
		}
		return skey{class: 'b'}, true
	case int:
		return skey{class: 'i', n: intKey(int64(x))}, true
	case int8:
		return skey{class: 'i', n: intKey(int64(x))}, true
	case int16:
		return skey{class: 'i', n: intKey(int64(x))}, true
	case int32:
		return skey{class: 'i', n: intKey(int64(x))}, true
	case int64:
		return skey{class: 'i', n: intKey(x)}, true
	case uint:
		return skey{class: 'u', n: uint64(x)}, true
	case uint8:
		return skey{class: 'u', n: uint64(x)}, true
	case uint16:
		return skey{class: 'u', n: uint64(x)}, true
	case uint32:
		return skey{class: 'u', n: uint64(x)}, true
	case uint64:
		return skey{class: 'u', n: x}, true
	case uintptr:
		return skey{class: 'u', n: uint64(x)}, true
	case float32:
		return skey{class: 'f', s: strconv.FormatFloat(float64(x), 'e', -1, 64)}, true
	case float64:
		return skey{class: 'f', s: strconv.FormatFloat(x, 'e', -1, 64)}, true
	case *ast.Ident:
		if x == nil {
			return skey{}, false
		}
		if fn, off, ok := posKey(x.Pos()); ok {
			return skey{class: 'p', s: fn, n: off, s2: x.Name}, true
		}
		return skey{}, false
	case ast.Node:
		if x == nil || reflect.ValueOf(x).IsNil() {
			return skey{}, false
		}
		if fn, off, ok := posKey(x.Pos()); ok {
			return skey{class: 'p', s: fn, n: off, s2: fmt.Sprintf("%T", x)}, true
		}
		return skey{}, false
	case types.Object:
		if x == nil || reflect.ValueOf(x).IsNil() {
			return skey{}, false
		}
		pkg := ""
		if x.Pkg() != nil {
			pkg = x.Pkg().Path()
		}
		if fn, off, ok := posKey(x.Pos()); ok {
			return skey{class: 'o', s: pkg + "\x00" + fn, n: off, s2: x.Name()}, true
		}
		return skey{}, false
	case *types.Named:
		if x == nil {
			return skey{}, false
		}
		return sortKey(types.Object(x.Obj()))
	case reflect.Value:
		return reflectKey(x)
	}
	rv := reflect.ValueOf(k)
	if rv.IsValid() {
		switch rv.Kind() {
		case reflect.String, reflect.Bool, reflect.Int, reflect.Int8, reflect.Int16, reflect.Int32, reflect.Int64,
			reflect.Uint, reflect.Uint8, reflect.Uint16, reflect.Uint32, reflect.Uint64, reflect.Uintptr,
			reflect.Float32, reflect.Float64:
			return reflectKey(rv)
		case reflect.Struct, reflect.Array:
			// structs/arrays of orderable fields (e.g. {file string; line int})
			var sb strings.Builder
			n := 0
			if rv.Kind() == reflect.Struct {
				n = rv.NumField()
			} else {
				n = rv.Len()
			}
			for i := 0; i < n; i++ {
				var fv reflect.Value
				if rv.Kind() == reflect.Struct {
					fv = rv.Field(i)
				} else {
					fv = rv.Index(i)
				}
				fk, ok := reflectKey(fv)
				if !ok {
					return skey{}, false
				}
				fmt.Fprintf(&sb, "%c%s\x00%020d\x00", fk.class, fk.s, fk.n)
			}
			return skey{class: 't', s: sb.String()}, true
		}
	}
	return skey{}, false
}

func reflectKey(v reflect.Value) (skey, bool) {
	if !v.IsValid() {
		return skey{}, false
	}
	switch v.Kind() {
	case reflect.String:
		return skey{class: 's', s: v.String()}, true
	case reflect.Bool:
		if v.Bool() {
			return skey{class: 'b', n: 1}, true
		}
		return skey{class: 'b'}, true
	case reflect.Int, reflect.Int8, reflect.Int16, reflect.Int32, reflect.Int64:
		return skey{class: 'i', n: intKey(v.Int())}, true
	case reflect.Uint, reflect.Uint8, reflect.Uint16, reflect.Uint32, reflect.Uint64, reflect.Uintptr:
		return skey{class: 'u', n: v.Uint()}, true
	case reflect.Float32, reflect.Float64:
		return skey{class: 'f', s: strconv.FormatFloat(v.Float(), 'e', -1, 64)}, true
	case reflect.Interface:
		if v.IsNil() {
			return skey{class: 'n'}, true
		}
		return reflectKey(v.Elem())
	}
	return skey{}, false
}

func splitmix(x uint64) uint64 {
	x += 0x9e3779b97f4a7c15
	x = (x ^ (x >> 30)) * 0xbf58476d1ce4e5b9
	x = (x ^ (x >> 27)) * 0x94d049bb133111eb
	return x ^ (x >> 31)
}

// visit counts one iteration at site over n entries and returns the policy,
// the visit number and the shuffle seed that apply to it.
func visit(site string, n int) (policy string, nth int, seed uint64, st *SiteStat) {
	mu.Lock()
	defer mu.Unlock()
	nth = visits[site]
	visits[site] = nth + 1
	st = stats[site]
	if st == nil {
		st = &SiteStat{}
		stats[site] = st
	}
	st.Visits++
	if n >= 2 {
		st.MultiVisits++
	}
	policy = sched.Default
	if o, ok := sched.Overrides[site]; ok {
		policy = o
	}
	return policy, nth, sched.Seed, st
}

// canonical sorts keys by their canonical key; ok=false: no canonical order.
func canonical(keys []any) ([]any, bool) {
	sk := make([]skey, len(keys))
	for i, k := range keys {
		s, ok := sortKey(k)
		if !ok {
			return keys, false
		}
		sk[i] = s
	}
	idx := make([]int, len(keys))
	for i := range idx {
		idx[i] = i
	}
	sort.SliceStable(idx, func(a, b int) bool { return sk[idx[a]].less(sk[idx[b]]) })
	out := make([]any, len(keys))
	for i, j := range idx {
		out[i] = keys[j]
	}
	return out, true
}

// permute returns the order (indices into the canonical list of n entries)
// the policy prescribes for this visit.
func permute(site, policy string, nth int, seed uint64, n int) []int {
	idx := make([]int, n)
	for i := range idx {
		idx[i] = i
	}
	switch {
	case n < 2 || policy == "" || policy == "asc":
	case policy == "desc":
		for i, j := 0, n-1; i < j; i, j = i+1, j-1 {
			idx[i], idx[j] = idx[j], idx[i]
		}
	case strings.HasPrefix(policy, "rot:"):
		k, _ := strconv.Atoi(policy[4:])
		k = ((k % n) + n) % n
		rot := append(append([]int{}, idx[k:]...), idx[:k]...)
		copy(idx, rot)
	default: // shuf
		h := fnv.New64a()
		h.Write([]byte(site))
		x := splitmix(seed ^ h.Sum64() ^ uint64(nth)*0x9e3779b97f4a7c15)
		for i := n - 1; i > 0; i-- {
			x = splitmix(x)
			j := int(x % uint64(i+1))
			idx[i], idx[j] = idx[j], idx[i]
		}
	}
	return idx
}

// order is the one-shot form used by the slice/iterator wrappers.
func order(site string, keys []any) ([]int, bool) {
	n := len(keys)
	policy, nth, seed, st := visit(site, n)
	if n < 2 {
		return permute(site, "asc", 0, 0, n), true
	}
	sk := make([]skey, n)
	for i, k := range keys {
		s, ok := sortKey(k)
		if !ok {
			mu.Lock()
			st.Uncontrolled++
			mu.Unlock()
			return permute(site, "asc", 0, 0, n), false
		}
		sk[i] = s
	}
	base := make([]int, n)
	for i := range base {
		base[i] = i
	}
	sort.SliceStable(base, func(a, b int) bool { return sk[base[a]].less(sk[base[b]]) })
	perm := permute(site, policy, nth, seed, n)
	out := make([]int, n)
	for i, p := range perm {
		out[i] = base[p]
	}
	return out, true
}

// mapCache remembers the canonical key order of a map between visits: gengo
// iterates types.Info.Defs of a package once per function literal, and
// sorting tens of thousands of identifiers each time would dominate the run.
// An entry is reused only after checking that the map still holds exactly the
// cached keys.
type cacheEntry struct {
	keys  []any
	index map[any]struct{}
	ok    bool
}

type cacheKey struct {
	ptr  uintptr
	site string
}

var (
	cacheMu  sync.Mutex
	mapCache = map[cacheKey]*cacheEntry{}
)

// Map iterates m in scheduled order. Entries deleted during the iteration are
// not produced; entries added during it are not produced either (both allowed
// by the language specification).
func Map[M ~map[K]V, K comparable, V any](m M, site string) iter.Seq2[K, V] {
	return func(yield func(K, V) bool) {
		n := len(m)
		policy, nth, seed, st := visit(site, n)
		if n < 2 {
			for k, v := range m {
				if !yield(k, v) {
					return
				}
			}
			return
		}
		ck := cacheKey{reflect.ValueOf(m).Pointer(), site}
		cacheMu.Lock()
		ce := mapCache[ck]
		cacheMu.Unlock()
		if ce != nil {
			if len(ce.keys) != n {
				ce = nil
			} else {
				for k := range m {
					if _, ok := ce.index[k]; !ok {
						ce = nil
						break
					}
				}
			}
		}
		if ce == nil {
			keys := make([]any, 0, n)
			index := make(map[any]struct{}, n)
			for k := range m {
				keys = append(keys, k)
				index[k] = struct{}{}
			}
			sorted, ok := canonical(keys)
			ce = &cacheEntry{keys: sorted, index: index, ok: ok}
			cacheMu.Lock()
			mapCache[ck] = ce
			cacheMu.Unlock()
		}
		if !ce.ok {
			mu.Lock()
			st.Uncontrolled++
			mu.Unlock()
			for k, v := range m {
				if !yield(k, v) {
					return
				}
			}
			return
		}
		for _, i := range permute(site, policy, nth, seed, n) {
			k := ce.keys[i].(K)
			v, ok := m[k]
			if !ok {
				continue
			}
			if !yield(k, v) {
				return
			}
		}
	}
}

// Seq re-orders a single-use iterator obtained from a map (maps.Keys/Values).
func Seq[T any](s iter.Seq[T], site string) iter.Seq[T] {
	return func(yield func(T) bool) {
		var items []T
		for v := range s {
			items = append(items, v)
		}
		anyKeys := make([]any, len(items))
		for i, k := range items {
			anyKeys[i] = k
		}
		idx, _ := order(site, anyKeys)
		for _, i := range idx {
			if !yield(items[i]) {
				return
			}
		}
	}
}

// Seq2 re-orders maps.All.
func Seq2[K, V any](s iter.Seq2[K, V], site string) iter.Seq2[K, V] {
	return func(yield func(K, V) bool) {
		var ks []K
		var vs []V
		for k, v := range s {
			ks = append(ks, k)
			vs = append(vs, v)
		}
		anyKeys := make([]any, len(ks))
		for i, k := range ks {
			anyKeys[i] = k
		}
		idx, _ := order(site, anyKeys)
		for _, i := range idx {
			if !yield(ks[i], vs[i]) {
				return
			}
		}
	}
}

// Slice re-orders a slice that was filled from a map (x/exp/maps.Keys).
func Slice[S ~[]T, T any](s S, site string) S {
	anyKeys := make([]any, len(s))
	for i, k := range s {
		anyKeys[i] = k
	}
	idx, _ := order(site, anyKeys)
	out := make(S, len(s))
	for i, j := range idx {
		out[i] = s[j]
	}
	return out
}

// ReflectKeys re-orders reflect.Value.MapKeys.
func ReflectKeys(keys []reflect.Value, site string) []reflect.Value {
	return Slice(keys, site)
}

// MapIter mirrors the part of *reflect.MapIter gengo could use.
type MapIter struct {
	keys []reflect.Value
	vals []reflect.Value
	i    int
}

// ReflectRange replaces reflect.Value.MapRange.
func ReflectRange(it *reflect.MapIter, site string) *MapIter {
	var keys []reflect.Value
	mi := &MapIter{i: -1}
	var vals []reflect.Value
	for it.Next() {
		keys = append(keys, it.Key())
		vals = append(vals, it.Value())
	}
	anyKeys := make([]any, len(keys))
	for i, k := range keys {
		anyKeys[i] = k
	}
	idx, _ := order(site, anyKeys)
	mi.keys = make([]reflect.Value, len(keys))
	mi.vals = make([]reflect.Value, len(keys))
	for i, j := range idx {
		mi.keys[i] = keys[j]
		mi.vals[i] = vals[j]
	}
	return mi
}

func (m *MapIter) Next() bool           { m.i++; return m.i < len(m.keys) }
func (m *MapIter) Key() reflect.Value   { return m.keys[m.i] }
func (m *MapIter) Value() reflect.Value { return m.vals[m.i] }

// SyncMapRange re-orders sync.Map.Range (passed as a method value).
func SyncMapRange(r func(func(k, v any) bool), site string) func(func(k, v any) bool) {
	return func(yield func(k, v any) bool) {
		var ks, vs []any
		r(func(k, v any) bool {
			ks = append(ks, k)
			vs = append(vs, v)
			return true
		})
		idx, _ := order(site, ks)
		for _, i := range idx {
			if !yield(ks[i], vs[i]) {
				return
			}
		}
	}
}
