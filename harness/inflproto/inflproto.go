// Package inflproto is the protocol of the inflector workers.
package inflproto

import (
	"encoding/hex"
	"unicode/utf8"
)

// Call is one call of Pluralize ("P") or Singularize ("S").
type Call struct {
	Op  string `json:"op"`
	Arg string `json:"arg"`
	Hex bool   `json:"hex,omitempty"` // Arg is hex-encoded (it is not valid UTF-8, which JSON cannot carry)
}

// Wire returns the call with its argument made JSON-safe.
func Wire(op, arg string) Call {
	if utf8.ValidString(arg) {
		return Call{Op: op, Arg: arg}
	}
	return Call{Op: op, Arg: hex.EncodeToString([]byte(arg)), Hex: true}
}

// Raw returns the argument as the byte string it stands for.
func (c Call) Raw() string {
	if !c.Hex {
		return c.Arg
	}
	b, _ := hex.DecodeString(c.Arg)
	return string(b)
}

// Result of one call.
type Result struct {
	Ret    string `json:"ret"`
	RetHex bool   `json:"ret_hex,omitempty"`
	Panic  string `json:"panic,omitempty"`
	Invoke int    `json:"invoke"` // scheduler step at invocation
	Return int    `json:"return"` // scheduler step at return
}

// Req is one request.
type Req struct {
	ID int `json:"id"`
	// Mode: "sched" (cooperative scheduler), "seq" (sequential, direct)
	Mode     string   `json:"mode"`
	Clients  [][]Call `json:"clients,omitempty"`
	Seed     uint64   `json:"seed,omitempty"`
	Schedule []int    `json:"schedule,omitempty"` // replay: goroutine ids in order
	Calls    []Call   `json:"calls,omitempty"`    // seq mode
	// volume mode: N distinct inputs "<tag><i>-<word>", all of one length, generated in the worker; the
	// words are irregular words of the asked rule type (PWords for Pluralize, SWords for Singularize), so
	// every result must be "<tag><i>-" + f(word), and asking again must give the same answer
	N          int      `json:"n,omitempty"`
	PWords     []string `json:"p_words,omitempty"`
	SWords     []string `json:"s_words,omitempty"`
	Tag        string   `json:"tag,omitempty"`
	Goroutines int      `json:"goroutines,omitempty"`
	// the simulated clock (what time.Now inside pkg/inflector reads): ClockJumpMS pass before the request
	// is served (the process has been alive that much longer), every scheduling step / sequential call /
	// volume call takes ClockStepUS microseconds
	// volume mode extras: RaiseProcs multiplies GOMAXPROCS before the first call (a program that sets it in
	// main, go test -cpu); GiantKiB > 0 first inflects inputs of that size ending in an irregular word
	RaiseProcs int `json:"raise_procs,omitempty"`
	GiantKiB   int `json:"giant_kib,omitempty"`
	ClockJumpMS int64 `json:"clock_jump_ms,omitempty"`
	ClockStepUS int64 `json:"clock_step_us,omitempty"`
}

// Resp is the answer.
type Resp struct {
	ID       int            `json:"id"`
	Results  [][]Result     `json:"results,omitempty"`
	Seq      []Result       `json:"seq,omitempty"`
	Schedule []int          `json:"schedule,omitempty"`
	Labels   []string       `json:"labels,omitempty"`
	Steps    int            `json:"steps"`
	Deadlock bool           `json:"deadlock,omitempty"`
	Blocked  []string       `json:"blocked,omitempty"`
	Diverged bool           `json:"diverged,omitempty"` // a replayed schedule named a goroutine that was not runnable
	Probes   map[string]int `json:"probes,omitempty"`
	// volume mode
	Checked    int      `json:"checked,omitempty"`
	Mismatches []string `json:"mismatches,omitempty"`
}

// SetRet stores a return value JSON-safely.
func (r *Result) SetRet(v string) {
	if utf8.ValidString(v) {
		r.Ret = v
		return
	}
	r.Ret, r.RetHex = hex.EncodeToString([]byte(v)), true
}

// Value returns the return value as the byte string it stands for.
func (r Result) Value() string {
	if !r.RetHex {
		return r.Ret
	}
	b, _ := hex.DecodeString(r.Ret)
	return string(b)
}

// VolumeInput is the i-th input of a volume run: tag, the index zero-padded so that every input is
// VolumeLen bytes long, a hyphen, the word.
func VolumeInput(tag string, i int, word string) string {
	n := VolumeLen - len(tag) - 1 - len(word)
	b := make([]byte, n)
	for k := n - 1; k >= 0; k-- {
		b[k] = byte('0' + i%10)
		i /= 10
	}
	return tag + string(b) + "-" + word
}

const VolumeLen = 24
