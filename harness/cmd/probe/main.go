package main

import (
	"fmt"
	_ "github.com/octohelm/gengo/pkg/gengo"
	_ "golang.org/x/mod/sumdb/dirhash"
	_ "golang.org/x/tools/go/packages"
	_ "mvdan.cc/gofumpt/format"
)

func main() { fmt.Println("ok") }
