package main

import (
	"encoding/json"
	"fmt"
	"os"
	"path/filepath"
	"time"

	"verifharness/buildw"
	"verifharness/proto"
	"verifharness/simrt"
	"verifharness/wk"
)

func must(err error) {
	if err != nil {
		fmt.Fprintln(os.Stderr, err)
		os.Exit(2)
	}
}

func main() {
	scratch, err := os.MkdirTemp("/dev/shm", "verif-smoke-")
	must(err)
	defer os.RemoveAll(scratch)
	t0 := time.Now()
	res, err := buildw.Build(buildw.Options{Scratch: scratch, Cmd: "simworker", Order: true, OSHook: true})
	must(err)
	fmt.Println("built in", time.Since(t0), "sites:", len(res.Sites))
	for _, s := range res.Sites {
		fmt.Println("  ", s.ID, s.Kind, s.KeyType)
	}
	root := filepath.Join(scratch, "m")
	must(os.MkdirAll(filepath.Join(root, "a"), 0o755))
	must(os.WriteFile(filepath.Join(root, "go.mod"), []byte("module example.com/m\n\ngo 1.22\n"), 0o644))
	must(os.WriteFile(filepath.Join(root, "a", "a.go"), []byte(`// +gengo:x
package a

type T struct{ A int }

type U struct{}

func F() { type T struct{}; _ = T{} }

func G[U any]() {}
`), 0o644))
	for _, pol := range []string{"asc", "desc"} {
		w, err := wk.Start(res.Bin, wk.Env(res.GoRoot, 0))
		must(err)
		req := &proto.RunReq{
			Root: root,
			Args: proto.GenArgs{Entrypoint: []string{"./a"}, Base: "zz_generated", All: true},
			Gens: []proto.GenScript{
				{Name: "probe", Impl: "probe"},
				{Name: "x", Impl: "new", Rules: map[string]proto.Rule{"* *": {Render: []proto.Part{{Text: "\nvar _ = 1\n"}}}}},
			},
			Sched: simrt.Schedule{Default: pol},
		}
		t1 := time.Now()
		resp, err := w.Do(req, 30*time.Second)
		must(err)
		fmt.Println("run in", time.Since(t1))
		for _, e := range resp.Events {
			if e.Exec < 0 {
				continue
			}
			b, _ := json.Marshal(e)
			fmt.Println("  ", string(b))
		}
		resp.Events = nil
		b, _ := json.MarshalIndent(resp, "", " ")
		fmt.Println(string(b))
		w.Close()
		os.Remove(filepath.Join(root, "gengo.sum"))
	}
}
