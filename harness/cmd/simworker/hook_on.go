//go:build verifhook

package main

import "os"

// installHook connects the recorder to the os seam (present only when the
// build overlay patched package os).
func installHook() {
	os.VerifHook = rec.osEvent
}

const hookInstalled = true
