package main

import (
	"crypto/sha256"
	"fmt"
	"go/ast"
	"go/token"
	"go/types"
	"path/filepath"
	"reflect"
	"sort"
	"strconv"
	"strings"

	gengotypes "github.com/octohelm/gengo/pkg/types"

	"verifharness/proto"
)

// universeReport loads the entrypoints with gengo's loader and compares every
// accessor of every reachable package with what go/types itself says (C13).
// The comparison uses only go/types and go/ast as the reference.
func universeReport(req *proto.RunReq) ([]proto.PkgReport, string) {
	u, err := gengotypes.Load(req.Args.Entrypoint)
	if err != nil {
		return nil, "load: " + err.Error()
	}

	var early []proto.PkgReport
	if req.UniLocateFirst {
		early = locateFirst(u)
	}
	// enumerate packages: the local ones, then everything reachable through
	// go/types' import graph
	seen := map[string]bool{}
	var order []string
	var queue []string
	for p := range u.LocalPkgPaths() {
		queue = append(queue, p)
	}
	sort.Strings(queue)
	for len(queue) > 0 {
		path := queue[0]
		queue = queue[1:]
		if seen[path] {
			continue
		}
		seen[path] = true
		order = append(order, path)
		P := u.Package(path)
		if P == nil || P.Pkg() == nil {
			continue
		}
		var next []string
		for _, ip := range P.Pkg().Imports() {
			next = append(next, ip.Path())
		}
		sort.Strings(next)
		queue = append(queue, next...)
	}

	out := early
	for _, path := range order {
		P := u.Package(path)
		r := proto.PkgReport{Path: path}
		if P == nil {
			r.Problems = append(r.Problems, proto.Problem{Oracle: "U0", Class: "universe-has-no-package", Detail: path})
			out = append(out, r)
			continue
		}
		r.Module = P.Module() != nil
		if !req.UniAll && !r.Module {
			continue
		}
		if len(P.Files()) == 0 {
			continue // "unsafe": a pseudo-package without source, nothing was loaded for it
		}
		checkPackage(u, P, &r, req.UniMethodsFirst)
		out = append(out, r)
	}
	return out, ""
}

func posString(fset *token.FileSet, pos token.Pos) string {
	if fset == nil || !pos.IsValid() {
		return "-"
	}
	pp := fset.Position(pos)
	return filepath.Base(pp.Filename) + ":" + strconv.Itoa(pp.Line) + ":" + strconv.Itoa(pp.Column)
}

func checkPackage(u *gengotypes.Universe, P gengotypes.Package, r *proto.PkgReport, methodsFirst bool) {
	tp := P.Pkg()
	fset := P.FileSet()
	scope := tp.Scope()
	var dig strings.Builder
	bad := func(oracle, class string, facts map[string]string, format string, args ...any) {
		if len(r.Problems) < 40 {
			r.Problems = append(r.Problems, proto.Problem{Oracle: oracle, Class: class, Detail: fmt.Sprintf(format, args...), Facts: facts})
		}
	}

	// ---- U1: name tables ---------------------------------------------------
	wantTypes := map[string]types.Object{}
	wantConsts := map[string]types.Object{}
	wantFuncs := map[string]types.Object{}
	for _, n := range scope.Names() {
		if n == "_" || n == "init" {
			continue
		}
		switch o := scope.Lookup(n).(type) {
		case *types.TypeName:
			wantTypes[n] = o
		case *types.Const:
			wantConsts[n] = o
		case *types.Func:
			wantFuncs[n] = o
		}
	}
	doU2 := func() {
		// ---- U2: methods -------------------------------------------------------
		tnames := make([]string, 0, len(wantTypes))
		for n := range wantTypes {
			tnames = append(tnames, n)
		}
		sort.Strings(tnames)
		for _, n := range tnames {
			tn := wantTypes[n].(*types.TypeName)
			if tn.IsAlias() {
				continue
			}
			named, ok := tn.Type().(*types.Named)
			if !ok {
				continue
			}
			if _, isIface := named.Underlying().(*types.Interface); isIface {
				continue // interface methods are not declared methods with receivers
			}
			wantAll := map[*types.Func]bool{}
			wantVal := map[*types.Func]bool{}
			for i := 0; i < named.NumMethods(); i++ {
				m := named.Method(i)
				wantAll[m] = true
				if sig, ok := m.Type().(*types.Signature); ok && sig.Recv() != nil {
					if _, isPtr := types.Unalias(sig.Recv().Type()).(*types.Pointer); !isPtr { // (type P = *T; func (P) M() has a pointer receiver)
						wantVal[m] = true
					}
				}
			}
			r.NMeth += len(wantAll)
			facts := map[string]string{"generic": fmt.Sprint(named.TypeParams().Len() > 0)}
			check := func(label string, want map[*types.Func]bool, got []*types.Func) {
				gotSet := map[*types.Func]int{}
				var names []string
				for _, m := range got {
					gotSet[m]++
					names = append(names, m.Name())
				}
				sort.Strings(names)
				fmt.Fprintf(&dig, "methods %s %s %s\n", n, label, strings.Join(names, ","))
				for m := range want {
					if gotSet[m] == 0 {
						bad("U2", "missing-method", facts, "%s (%s): %s", n, label, m.Name())
					}
				}
				for m, c := range gotSet {
					if !want[m] {
						bad("U2", "extra-method", facts, "%s (%s): %s", n, label, m.Name())
					}
					if c > 1 {
						bad("U2", "duplicate-method", facts, "%s (%s): %s", n, label, m.Name())
					}
				}
			}
			// the answers must not depend on which questions were asked before
			check("value", wantVal, P.MethodsOf(named, false))
			check("all", wantAll, P.MethodsOf(named, true))
			check("value", wantVal, P.MethodsOf(named, false))
			check("all", wantAll, P.MethodsOf(named, true))
		}

	}
	if methodsFirst {
		doU2()
	}
	cmpTable := func(kind string, want map[string]types.Object, got map[string]types.Object, lookup func(string) types.Object) {
		names := make([]string, 0, len(want)+len(got))
		for n := range want {
			names = append(names, n)
		}
		for n := range got {
			if _, ok := want[n]; !ok {
				names = append(names, n)
			}
		}
		sort.Strings(names)
		for _, n := range names {
			if n == "_" || n == "init" {
				continue
			}
			w, wok := want[n]
			g, gok := got[n]
			switch {
			case wok && !gok:
				bad("U1", kind+"-missing", nil, "%s", n)
			case !wok && gok:
				bad("U1", kind+"-extra", map[string]string{"scope": scopeOf(g)}, "%s@%s", n, posString(fset, g.Pos()))
			case w != g:
				bad("U1", kind+"-wrong-object", map[string]string{"scope": scopeOf(g)}, "%s got@%s want@%s", n, posString(fset, g.Pos()), posString(fset, w.Pos()))
			}
			if gok {
				fmt.Fprintf(&dig, "%s %s %s\n", kind, n, posString(fset, g.Pos()))
				if l := lookup(n); l != g {
					bad("U1", kind+"-lookup-differs-from-table", nil, "%s", n)
				}
			} else if wok {
				if l := lookup(n); l != nil && !isNilObj(l) {
					bad("U1", kind+"-lookup-finds-what-table-lacks", nil, "%s", n)
				}
			}
		}
	}
	gotTypes := map[string]types.Object{}
	for n, o := range P.Types() {
		gotTypes[n] = o
	}
	gotConsts := map[string]types.Object{}
	for n, o := range P.Constants() {
		gotConsts[n] = o
	}
	gotFuncs := map[string]types.Object{}
	for n, o := range P.Functions() {
		gotFuncs[n] = o
	}
	cmpTable("type", wantTypes, gotTypes, func(n string) types.Object {
		if o := P.Type(n); o != nil {
			return o
		}
		return nil
	})
	cmpTable("const", wantConsts, gotConsts, func(n string) types.Object {
		if o := P.Constant(n); o != nil {
			return o
		}
		return nil
	})
	cmpTable("func", wantFuncs, gotFuncs, func(n string) types.Object {
		if o := P.Function(n); o != nil {
			return o
		}
		return nil
	})
	r.NTypes, r.NConst, r.NFuncs = len(wantTypes), len(wantConsts), len(wantFuncs)

	if !methodsFirst {
		doU2()
	}
	// ---- U3: imports -------------------------------------------------------
	wantImports := map[string]bool{}
	for _, f := range P.Files() {
		for _, is := range f.Imports {
			p, err := strconv.Unquote(is.Path.Value)
			if err != nil || p == "C" {
				continue
			}
			wantImports[p] = true
		}
	}
	gotImports := P.Imports()
	r.NImp = len(wantImports)
	ipaths := make([]string, 0, len(wantImports))
	for p := range wantImports {
		ipaths = append(ipaths, p)
	}
	sort.Strings(ipaths)
	for _, p := range ipaths {
		g, ok := gotImports[p]
		switch {
		case !ok:
			bad("U3", "missing-key", nil, "%s", p)
		case g == nil || isNilPkg(g):
			bad("U3", "nil-package", nil, "%s", p)
		case g != u.Package(p) && !(u.Package(p) == nil && g == u.Package("vendor/"+p)):
			// (std packages import their vendored dependencies under vendor/<path>)
			bad("U3", "not-the-universe-package", nil, "%s", p)
		}
		fmt.Fprintf(&dig, "import %s %v\n", p, ok && g != nil && !isNilPkg(g))
	}
	extra := []string{}
	for p := range gotImports {
		if !wantImports[p] {
			extra = append(extra, p)
		}
	}
	sort.Strings(extra)
	for _, p := range extra {
		bad("U3", "extra-key", nil, "%s", p)
	}

	// ---- U4: location ------------------------------------------------------
	if P.Module() != nil {
		for _, f := range P.Files() {
			// where the file is, as positions report it (for a file that imports "C" the syntax comes from the
			// copy cgo wrote into the build cache, whose //line directives name the source file)
			fname := fset.Position(f.Package).Filename
			if fname == "" {
				fname = fset.Position(f.FileStart).Filename
			}
			dir := filepath.Dir(fname)
			if outsideModule(P, dir) {
				continue // synthesised by the toolchain (_cgo_gotypes.go): not a file of the package directory
			}
			if sd := P.SourceDir(); sd != dir {
				bad("U4", "sourcedir-wrong", nil, "%s != %s", sd, dir)
			}
			for _, d := range f.Decls {
				pos := d.Pos()
				if gd, ok := d.(*ast.GenDecl); ok && len(gd.Specs) > 0 {
					pos = gd.Specs[0].Pos()
				}
				lp := u.LocateInPackage(pos)
				if lp == nil || isNilPkg(lp) {
					bad("U4", "locate-nil", nil, "%s", posString(fset, pos))
				} else if lp != P {
					bad("U4", "locate-wrong-package", nil, "%s got %s", posString(fset, pos), lp.Pkg().Path())
				}
			}
		}
		fmt.Fprintf(&dig, "sourcedir-ok %v\n", true)
	}

	// the digest must not depend on the order the questions were asked in
	digLines := strings.Split(dig.String(), "\n")
	sort.Strings(digLines)
	sum := sha256.Sum256([]byte(strings.Join(digLines, "\n")))
	r.Digest = fmt.Sprintf("%x", sum[:8])
}

func isNilObj(o types.Object) bool {
	switch x := o.(type) {
	case *types.TypeName:
		return x == nil
	case *types.Const:
		return x == nil
	case *types.Func:
		return x == nil
	}
	return o == nil
}

func isNilPkg(p gengotypes.Package) bool {
	if p == nil {
		return true
	}
	// a typed nil pointer inside the interface
	rv := reflect.ValueOf(p)
	return rv.Kind() == reflect.Pointer && rv.IsNil()
}

func scopeOf(o types.Object) string {
	if o == nil || o.Pkg() == nil {
		return "none"
	}
	if _, ok := o.Type().(*types.TypeParam); ok {
		return "typeparam"
	}
	if o.Parent() == o.Pkg().Scope() {
		return "package"
	}
	return "local"
}

// locateFirst asks LocateInPackage about declarations of module packages whose positions were reached
// through go/types' import graph only: apart from one entry package, no package has been requested
// from the universe by path when the question is asked.
func locateFirst(u *gengotypes.Universe) []proto.PkgReport {
	var entry string
	for p := range u.LocalPkgPaths() {
		if entry == "" || p > entry {
			entry = p // the last local package in sorted order: the one most likely to import the others
		}
	}
	if entry == "" {
		return nil
	}
	P := u.Package(entry)
	if P == nil || P.Pkg() == nil {
		return nil
	}
	local := map[string]bool{}
	for p := range u.LocalPkgPaths() {
		local[p] = true
	}
	var out []proto.PkgReport
	seen := map[string]bool{entry: true}
	queue := []*types.Package{P.Pkg()}
	for len(queue) > 0 {
		tp := queue[0]
		queue = queue[1:]
		for _, ip := range tp.Imports() {
			if seen[ip.Path()] {
				continue
			}
			seen[ip.Path()] = true
			queue = append(queue, ip)
			if !local[ip.Path()] {
				continue
			}
			names := ip.Scope().Names()
			sort.Strings(names)
			for _, n := range names {
				obj := ip.Scope().Lookup(n)
				if !obj.Pos().IsValid() {
					continue
				}
				// (decided from the position alone: asking the universe for the package here would be the very
				// request this report is about)
				if fn := P.FileSet().Position(obj.Pos()).Filename; strings.Contains(fn, "/go-build/") || strings.HasPrefix(filepath.Base(fn), "_cgo_") {
					continue // declared in a file the toolchain synthesised (cgo)
				}
				r := proto.PkgReport{Path: ip.Path(), Module: true}
				lp := u.LocateInPackage(obj.Pos())
				switch {
				case lp == nil || isNilPkg(lp):
					r.Problems = append(r.Problems, proto.Problem{Oracle: "U4", Class: "locate-nil-before-package-was-requested", Detail: n})
				case lp.Pkg() == nil || lp.Pkg().Path() != ip.Path():
					r.Problems = append(r.Problems, proto.Problem{Oracle: "U4", Class: "locate-wrong-package", Detail: n})
				}
				if len(r.Problems) > 0 {
					out = append(out, r)
				}
				break
			}
		}
	}
	return out
}

// outsideModule reports whether dir lies outside the module of P (or P has no module).
func outsideModule(P gengotypes.Package, dir string) bool {
	mod := P.Module()
	if mod == nil || mod.Dir == "" {
		return true
	}
	rel, err := filepath.Rel(mod.Dir, dir)
	return err != nil || rel == ".." || strings.HasPrefix(rel, "../")
}

// inspectFromGenerator compares, through the public API a generator has, the name tables of the
// generator's package and of the packages it imports with go/types' scopes.
func inspectFromGenerator(own gengotypes.Package, lookup func(string) gengotypes.Package) []proto.Problem {
	var probs []proto.Problem
	check := func(P gengotypes.Package) {
		if P == nil || isNilPkg(P) || P.Pkg() == nil {
			return
		}
		scope := P.Pkg().Scope()
		got := P.Types()
		for _, n := range scope.Names() {
			tn, ok := scope.Lookup(n).(*types.TypeName)
			if !ok || n == "_" {
				continue
			}
			if g, ok := got[n]; !ok || g != tn {
				probs = append(probs, proto.Problem{Oracle: "U1", Class: "type-missing-during-run", Detail: P.Pkg().Path() + "." + n})
			} else if P.Type(n) != tn {
				probs = append(probs, proto.Problem{Oracle: "U1", Class: "type-lookup-differs-during-run", Detail: P.Pkg().Path() + "." + n})
			}
		}
		for n, g := range got {
			if scope.Lookup(n) != types.Object(g) {
				probs = append(probs, proto.Problem{Oracle: "U1", Class: "type-extra-during-run", Detail: P.Pkg().Path() + "." + n})
			}
		}
	}
	check(own)
	if own != nil && own.Pkg() != nil {
		for _, ip := range own.Pkg().Imports() {
			if ip.Path() == "unsafe" {
				continue // (no source: its scope is built into the type checker)
			}
			check(lookup(ip.Path()))
		}
	}
	if len(probs) > 6 {
		probs = probs[:6]
	}
	return probs
}
