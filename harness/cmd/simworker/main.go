// Command simworker runs real gengo inside the simulator's seams. It is built
// by the driver with the instrumentation overlay and serves run requests
// (JSON lines on fd 3, answers on fd 4) until EOF or until a scheduled crash
// makes it SIGKILL itself.
package main

import (
	"bufio"
	"context"
	"encoding/json"
	"fmt"
	"os"
	"path/filepath"
	"runtime/debug"
	"strings"

	"github.com/octohelm/gengo/pkg/gengo"
	"github.com/octohelm/gengo/pkg/sumfile"

	_ "github.com/octohelm/gengo/devpkg/deepcopygen"
	_ "github.com/octohelm/gengo/devpkg/defaultergen"
	_ "github.com/octohelm/gengo/devpkg/partialstruct"
	_ "github.com/octohelm/gengo/devpkg/runtimedocgen"

	"verifharness/proto"
	"verifharness/simrt"
)

func main() {
	in := os.NewFile(3, "verif-req")
	out := os.NewFile(4, "verif-resp")
	if in == nil || out == nil {
		fmt.Fprintln(os.Stderr, "simworker: fds 3/4 missing")
		os.Exit(2)
	}
	// gengo and go/packages print to stdout; nobody reads it.
	if devnull, err := os.OpenFile("/dev/null", os.O_WRONLY, 0); err == nil {
		os.Stdout = devnull
	}
	installHook()

	rd := bufio.NewReaderSize(in, 1<<20)
	enc := json.NewEncoder(out)
	served := 0
	for {
		line, err := rd.ReadBytes('\n')
		if len(line) > 0 {
			var req proto.RunReq
			if jerr := json.Unmarshal(line, &req); jerr != nil {
				fmt.Fprintln(os.Stderr, "simworker: bad request:", jerr)
				os.Exit(2)
			}
			resp := serve(&req)
			resp.RunIndex = served
			served++
			if eerr := enc.Encode(resp); eerr != nil {
				fmt.Fprintln(os.Stderr, "simworker: write response:", eerr)
				os.Exit(2)
			}
			if resp.Panic != "" {
				// a panic is a process death: the unwinding already ran gengo's deferred functions,
				// the report is out, nothing of this process may serve another run
				os.Exit(0)
			}
		}
		if err != nil {
			return
		}
	}
}

// kept: the executor a request asked to keep alive for the next one.
var kept struct {
	exec gengo.Executor
	args *gengo.GeneratorArgs
	root string
	cwd  string
}

func serve(req *proto.RunReq) (resp *proto.RunResp) {
	resp = &proto.RunResp{ID: req.ID}
	prevFset := simrt.CurrentFileSet()
	simrt.Reset(req.Sched)
	if req.ReuseExecutor && kept.exec != nil && prevFset != nil {
		simrt.FileSet(prevFset, "kept-executor") // positions of the kept universe stay resolvable
	}
	rec.reset(req)
	defer func() {
		rec.stop()
		if r := recover(); r != nil {
			resp.Panic = fmt.Sprintf("%v\n%s", r, debug.Stack())
		}
		if !req.NoEvents {
			resp.Events = rec.events
		}
		resp.Fired = rec.fired
		resp.Sites = simrt.Stats()
	}()

	cwd := req.Cwd
	if cwd == "" {
		cwd = req.Root
	}
	if err := os.Chdir(cwd); err != nil {
		resp.LoadErr = "chdir: " + err.Error()
		return
	}
	// as a shell does: the go command (and so go/packages) spells directories the way $PWD does, which
	// matters when a component of the path is a symbolic link
	os.Setenv("PWD", cwd)
	physRoot = ""
	if real, err := filepath.EvalSymlinks(req.Root); err == nil && real != filepath.Clean(req.Root) {
		physRoot = real
	}

	if req.DriverFailsOnce {
		// go/packages consults GOPACKAGESDRIVER first: a driver that fails on its first call and declines
		// ("NotHandled") afterwards emulates go list failing once, e.g. while go.mod is being rewritten
		dir, err := os.MkdirTemp("", "verif-driver-")
		if err == nil {
			defer os.RemoveAll(dir)
			script := filepath.Join(dir, "driver.sh")
			mark := filepath.Join(dir, "called")
			_ = os.WriteFile(script, []byte("#!/bin/sh\nif [ ! -e '"+mark+"' ]; then : > '"+mark+"'; echo 'transient driver failure' >&2; exit 1; fi\ncat > /dev/null\necho '{\"NotHandled\":true}'\n"), 0o755)
			os.Setenv("GOPACKAGESDRIVER", script)
			defer os.Unsetenv("GOPACKAGESDRIVER")
		}
	}
	if req.Universe {
		rec.start()
		resp.Universe, resp.LoadErr = universeReport(req)
		return
	}

	gens, err := buildGenerators(req.Gens)
	if err != nil {
		resp.LoadErr = "script: " + err.Error()
		return
	}
	if req.ViaRegistry {
		mine := map[string]bool{}
		for _, g := range gens {
			gengo.Register(g)
			mine[g.Name()] = true
		}
		gens = nil
		for _, g := range gengo.GetRegisteredGenerators() {
			if mine[g.Name()] {
				gens = append(gens, g)
			}
		}
	}

	curBase = req.Args.Base
	args := &gengo.GeneratorArgs{
		Globals:            req.Args.Globals,
		Entrypoint:         req.Args.Entrypoint,
		OutputFileBaseName: req.Args.Base,
		All:                req.Args.All,
		Force:              req.Args.Force,
	}

	var second gengo.Executor
	if req.SecondContext != "" {
		// another context over a copy of the module, created first and executed while the reported one exists
		if err := os.Chdir(req.SecondContext); err == nil {
			os.Setenv("PWD", req.SecondContext)
			a2 := *args
			second, _ = gengo.NewContext(&a2)
			_ = os.Chdir(cwd)
			os.Setenv("PWD", cwd)
		}
	}
	rec.start()
	var c gengo.Executor
	if req.ReuseExecutor && kept.exec != nil && kept.root == req.Root && kept.cwd == cwd {
		// the executor of the previous request: the caller changes its arguments in place and runs again
		*kept.args = *args
		args = kept.args
		c = kept.exec
		resp.ReusedExecutor = true
	} else {
		kept.exec = nil
		var err error
		c, err = gengo.NewContext(args)
		if err != nil {
			resp.LoadErr = err.Error()
			if resp.LoadErr == "" {
				resp.LoadErr = "error"
			}
			return
		}
	}
	if req.KeepExecutor {
		kept.exec, kept.args, kept.root, kept.cwd = c, args, req.Root, cwd
	} else {
		kept.exec = nil
	}
	if second != nil {
		rec.stop()
		if g2, err := buildGenerators(req.Gens); err == nil {
			_ = second.Execute(context.Background(), g2...)
		}
		// (the generator prototypes without New are per process: rebuild the reported run's)
		gens, _ = buildGenerators(req.Gens)
		rec.start()
	}
	rec.beginExec()
	if req.HasFirstGlobals {
		// an earlier pass on the same executor with other global tags; the report is about the next call
		final := args.Globals
		args.Globals = req.FirstGlobals
		rec.stop()
		firstGens := gens
		if len(req.FirstGens) > 0 {
			if fg, err := buildGenerators(req.FirstGens); err == nil {
				firstGens = fg
			}
		}
		_ = c.Execute(context.Background(), firstGens...)
		if len(req.FirstGens) > 0 {
			gens, _ = buildGenerators(req.Gens)
		}
		args.Globals = final
		rec.restartExec()
		rec.start()
	}
	rec.point("phase", "before-execute")
	// the caller's context can be cancelled at a scheduled event (a CLI reacting to ctrl-c)
	ctx, cancel := context.WithCancel(context.Background())
	rec.cancel = cancel
	defer cancel()
	err = c.Execute(ctx, gens...)
	if err != nil && req.RetrySameExecutor {
		// the caller retries on the same executor; the report describes the second call
		resp.FirstExecErr = err.Error()
		resp.FirstExecuted = rec.restartExec()
		err = c.Execute(ctx, gens...)
	}
	if err != nil {
		resp.ExecErr = err.Error()
		if resp.ExecErr == "" {
			resp.ExecErr = "error"
		}
	}
	resp.Late = rec.executeReturned(rec.firedDo("cancel"))
	rec.point("phase", "after-execute")
	rec.stop()

	if req.ReadSum {
		f, err := sumfile.Load(req.Root)
		if err != nil {
			resp.SumErr = err.Error()
		} else {
			resp.Sum = f.Data
		}
	}
	return
}

// physRoot: the module root with every symbolic link resolved, when that is another spelling than the
// one the request uses (a path below the root is recognised under either spelling).
var physRoot string

func relUnder(root, path string) (string, bool) {
	if !filepath.IsAbs(path) {
		if wd, err := os.Getwd(); err == nil {
			path = filepath.Join(wd, path)
		}
	}
	path = filepath.Clean(path)
	for _, r := range []string{root, physRoot} {
		if r == "" {
			continue
		}
		if path == r {
			return ".", true
		}
		if strings.HasPrefix(path, r+"/") {
			return path[len(r)+1:], true
		}
	}
	return "", false
}
