package main

import (
	"context"
	"encoding/json"
	"errors"
	"fmt"
	"go/types"
	"iter"
	"math"
	"path/filepath"
	"sort"
	"strconv"
	"strings"
	"sync"
	"syscall"
	"verifharness/vals/model"

	"github.com/octohelm/gengo/pkg/gengo"
	"github.com/octohelm/gengo/pkg/gengo/snippet"

	"verifharness/proto"
	"verifharness/simrt"
)

// instState is per generator instance; it is what makes cross-package leakage
// of an instance visible (C05).
type instState struct {
	serial int
	seen   int
	helper bool
	// scratch: what a "lazy" part's closure reads (overwritten after every Render)
	scratch string
	// curObj: the type the running GenerateType / GenerateAliasType call is about
	curObj *types.TypeName
}

var errScripted = errors.New("scripted generator failure")

// ordinary failures whose message merely ends in the text of a sentinel error: they are errors
// like any other (only ErrSkip / ErrIgnore themselves, possibly wrapped, are swallowed)
var errTexts = []string{"scripted generator failure (injected)", "unsupported value for +gengo:mode: ignore", "cannot handle this type, would have to skip",
	"ignore", "skip", "validation failed: skip"}

// core implements the scripted behaviour shared by all generator types.
type core struct {
	script *proto.GenScript
	st     *instState
}

func (g *core) state() *instState {
	if g.st == nil {
		g.st = &instState{serial: rec.nextSerial()}
	}
	return g.st
}

func ctxPkg(c gengo.Context) string {
	if p := c.Package(""); p != nil && p.Pkg() != nil {
		return p.Pkg().Path()
	}
	return ""
}

func describe(ev *proto.Event, obj *types.TypeName) {
	ev.Type = obj.Name()
	if obj.Pkg() != nil {
		if obj.Parent() == obj.Pkg().Scope() {
			ev.Scope = "package"
		} else {
			ev.Scope = "local"
		}
		if obj.Pkg().Path() != ev.Pkg {
			ev.Scope += ":foreign:" + obj.Pkg().Path()
		}
	}
	if fs := simrt.CurrentFileSet(); fs != nil && obj.Pos().IsValid() {
		pp := fs.Position(obj.Pos())
		ev.File = filepath.Base(pp.Filename)
		ev.Line = pp.Line
	}
}

func (g *core) render(c gengo.Context, parts []proto.Part) {
	st := g.state()
	for _, p := range parts {
		switch {
		case p.Names:
			if st.curObj == nil || st.curObj.Pkg() == nil {
				continue
			}
			q := st.curObj.Pkg().Path() + "." + st.curObj.Name()
			forms := []struct {
				tag string
				s   snippet.Snippet
			}{{"obj", snippet.ID(st.curObj)}, {"ref", snippet.ID(q)}}
			if p.Flip {
				forms[0], forms[1] = forms[1], forms[0]
			}
			c.Render(snippet.Block("\n"))
			for _, f := range forms {
				c.Render(snippet.Block("// NAMEOF " + f.tag + " " + q + " = "))
				c.Render(f.s)
				c.Render(snippet.Block("\n"))
			}
			c.Render(snippet.Block("\n"))
		case p.State == "helper-once":
			if !st.helper {
				st.helper = true
				c.Render(snippet.Block(p.Text))
			}
		case p.State == "inst-count":
			c.Render(snippet.Block(p.Text + strconv.Itoa(st.seen)))
		case p.Tmpl != "":
			args := snippet.Args{}
			for name, ref := range p.TArgs {
				args[name] = snippet.ID(ref)
			}
			c.Render(snippet.T(p.Tmpl, args))
		case p.DocRef != "":
			c.Render(snippet.Block(docComment(c, p.DocRef)))
		case p.Results:
			c.Render(snippet.Block(resultsComment(c)))
		case p.Octal:
			c.Render(snippet.Block("\nconst " + p.Text + " = 0644\n"))
		case p.FieldDocs:
			c.Render(snippet.Block(fieldDocsComment(c, st.curObj)))
		case p.Locate != "":
			c.Render(snippet.Block(locateComment(c, p.Locate)))
		case p.Bulk > 0:
			var sb strings.Builder
			sb.WriteString("\n\nvar " + p.Text + " = [...]string{\n")
			line := "\t\"" + strings.Repeat("0123456789abcdef", 6) + "\",\n"
			for sb.Len() < p.Bulk<<10 {
				sb.WriteString(line)
			}
			sb.WriteString("}\n\n")
			c.Render(snippet.Block(sb.String()))
		case p.Ref != "" && p.Via == "expose-shared":
			c.Render(sharedExpose(p.Ref))
		case p.Ref != "":
			c.Render(snippet.ID(p.Ref))
		case p.Via == "lazy":
			// Render consumes the snippet while it is called: what the generator does to its scratch state
			// afterwards is none of the file's business
			st.scratch = p.Text
			c.Render(snippet.Func(func(ctx context.Context) iter.Seq[string] {
				return func(yield func(string) bool) { yield(st.scratch) }
			}))
			st.scratch = "\n// scratch state overwritten after Render returned\n"
		case p.Value != "":
			switch p.Value {
			case "float-keys":
				c.Render(snippet.Value(map[float64]int{2: 1, 10: 2, 12.5: 3, 1.5: 4, 100: 5, 20: 6}))
			case "uint-keys":
				c.Render(snippet.Value(map[uint64]int{1: 1, 20: 2, 3: 3, math.MaxUint64: 4, 9223372036854775808: 5}))
			case "int-keys":
				c.Render(snippet.Value(map[int]string{10: "a", 9: "b", -1: "c", 100: "d", 2: "e"}))
			case "clash-values":
				c.Render(snippet.Value(model.Table))
			case "clash-values-int":
				c.Render(snippet.Value(model.ByID))
			case "bool-keys":
				c.Render(snippet.Value(map[bool]int{true: 1, false: 0}))
			default:
				m := map[string]int{}
				_ = json.Unmarshal([]byte(p.Value), &m)
				c.Render(snippet.Value(m))
			}
		default:
			c.Render(snippet.Block(p.Text))
		}
	}
}

// docComment reads the documentation of a type of any loaded package through the public API, the
// way a generator that documents field types would.
// sharedExposes: snippet values a generator author keeps in package-level variables.
var (
	sharedExposesMu sync.Mutex
	sharedExposes   = map[string]snippet.Snippet{}
)

func sharedExpose(ref string) snippet.Snippet {
	sharedExposesMu.Lock()
	defer sharedExposesMu.Unlock()
	if s, ok := sharedExposes[ref]; ok {
		return s
	}
	i := strings.LastIndex(ref, ".")
	s := snippet.PkgExpose(ref[:i], ref[i+1:])
	sharedExposes[ref] = s
	return s
}

// locateComment asks the context where a type of an imported package lives.
func locateComment(c gengo.Context, ref string) string {
	i := strings.LastIndex(ref, ".")
	path, name := ref[:i], ref[i+1:]
	own := c.Package("")
	if own == nil || own.Pkg() == nil {
		return "\n// LOCATED " + name + ": <no package>\n"
	}
	for _, ip := range own.Pkg().Imports() {
		if ip.Path() != path {
			continue
		}
		obj := ip.Scope().Lookup(name)
		if obj == nil {
			return "\n// LOCATED " + name + ": <no such object>\n"
		}
		lp := c.LocateInPackage(obj.Pos())
		if lp == nil || lp.Pkg() == nil {
			return "\n// LOCATED " + name + " in <unknown>\n"
		}
		return "\n// LOCATED " + name + " in " + lp.Pkg().Path() + "\n"
	}
	return "\n// LOCATED " + name + ": <not imported>\n"
}

// curBase is the OutputFileBaseName of the request being served.
var curBase string

// resultsComment asks the universe for the possible results of every function of the processed package.
func resultsComment(c gengo.Context) string {
	pkg := c.Package("")
	fns := pkg.Functions()
	names := make([]string, 0, len(fns))
	for n := range fns {
		names = append(names, n)
	}
	sort.Strings(names)
	var sb strings.Builder
	sb.WriteString("\n")
	for _, n := range names {
		if fs := pkg.FileSet(); fs != nil && curBase != "" && strings.HasPrefix(filepath.Base(fs.Position(fns[n].Pos()).Filename), curBase+".") {
			continue // declared by a generated file of an earlier run: a generator that described its own output would never settle
		}
		res, k := pkg.ResultsOf(fns[n])
		var all []string
		for _, alternatives := range res {
			var one []string
			for _, r := range alternatives {
				t := r.String()
				if r.Expr != nil {
					t += " = " + types.ExprString(r.Expr)
				}
				one = append(one, t)
			}
			all = append(all, strings.Join(one, " | "))
		}
		sb.WriteString(fmt.Sprintf("// RESULTS %s (%d): (%s)\n", n, k, strings.ReplaceAll(strings.Join(all, ", "), "\n", " ")))
	}
	return sb.String()
}

func docComment(c gengo.Context, ref string) string {
	i := strings.LastIndex(ref, ".")
	pkg := c.Package(ref[:i])
	if pkg == nil {
		return "\n// DOC <no package>\n"
	}
	tn := pkg.Type(ref[i+1:])
	if tn == nil {
		return "\n// DOC <no type>\n"
	}
	_, lines := pkg.Doc(tn.Pos())
	return "\n// DOC " + strings.Join(lines, " | ") + "\n"
}

func (g *core) apply(c gengo.Context, kind string, obj *types.TypeName, rules map[string]proto.Rule) error {
	st := g.state()
	st.seen++
	ev := proto.Event{Kind: kind, Gen: g.script.Name, Pkg: ctxPkg(c), Inst: st.serial}
	describe(&ev, obj)
	st.curObj = obj
	if g.script.Inspect && kind == "gen" {
		ev.Problems = inspectFromGenerator(c.Package(""), c.Package)
	}
	act := rec.genEvent(ev)
	rule, ok := rules[ev.Pkg+" "+ev.Type]
	if !ok {
		rule, ok = rules["* "+ev.Type]
	}
	if !ok {
		rule = rules["* *"]
	}
	switch act {
	case actGenPanic:
		// the process dies by an unrecovered panic inside the generator: gengo's deferred functions run
		var m map[string]int
		m["injected panic in generator"] = 1
	case actGenError:
		if k := (st.seen + len(ev.Type) + len(ev.Pkg)) % (len(errTexts) + 2); k >= len(errTexts) {
			// a failure that wraps a "transient" errno (a busy lock, an interrupted call) is a failure too
			return fmt.Errorf("cache lock busy: %w", []error{syscall.EAGAIN, syscall.EINTR}[k-len(errTexts)])
		}
		return errors.New(errTexts[st.seen%len(errTexts)])
	case actGenUnparseable:
		for _, p := range rule.Render {
			if p.Bulk > 0 {
				g.render(c, rule.Render) // megabytes of valid text first, then the broken declaration
				break
			}
		}
		c.Render(snippet.Block("\nfunc ( {{{ unparseable\n"))
		return nil
	}
	g.render(c, rule.Render)
	for i := range rule.Defers {
		d := rule.Defers[i]
		idx := i
		typeName := ev.Type
		c.Defer(func(dc gengo.Context) error {
			dev := proto.Event{Kind: "defer", Gen: g.script.Name, Pkg: ctxPkg(dc), Type: typeName, Inst: st.serial, N: idx}
			switch rec.genEvent(dev) {
			case actGenPanic:
				panic("injected panic in deferred callback")
			case actGenError:
				return fmt.Errorf("%w (injected in defer)", errScripted)
			case actGenUnparseable:
				dc.Render(snippet.Block("\nfunc ( {{{ unparseable\n"))
				return nil
			}
			g.render(dc, d.Render)
			if d.Ret == "error" {
				return fmt.Errorf("%w in defer", errScripted)
			}
			return nil
		})
	}
	switch rule.Ret {
	case "skip":
		return gengo.ErrSkip
	case "ignore":
		return gengo.ErrIgnore
	case "wrapped-skip":
		return fmt.Errorf("wrapped: %w", gengo.ErrSkip)
	case "wrapped-ignore":
		return fmt.Errorf("wrapped: %w", gengo.ErrIgnore)
	case "error":
		return errScripted
	}
	return nil
}

func (g *core) Name() string { return g.script.Name }

func (g *core) GenerateType(c gengo.Context, t *types.Named) error {
	return g.apply(c, "gen", t.Obj(), g.script.Rules)
}

func (g *core) generateAlias(c gengo.Context, t *types.Alias) error {
	return g.apply(c, "alias", t.Obj(), g.script.AliasRules)
}

// --- generators with New -----------------------------------------------------

type newGen struct{ core }

func (g *newGen) New(c gengo.Context) gengo.Generator {
	n := &newGen{core{script: g.script}}
	rec.genEvent(proto.Event{Kind: "new", Gen: g.script.Name, Pkg: ctxPkg(c), Inst: n.state().serial})
	return n
}

func (g *newGen) GenerateAliasType(c gengo.Context, t *types.Alias) error {
	return g.generateAlias(c, t)
}

type newGenNoAlias struct{ core }

func (g *newGenNoAlias) New(c gengo.Context) gengo.Generator {
	n := &newGenNoAlias{core{script: g.script}}
	rec.genEvent(proto.Event{Kind: "new", Gen: g.script.Name, Pkg: ctxPkg(c), Inst: n.state().serial})
	return n
}

// --- generators without New: gengo creates them with reflect.New, so the
// identity (which script) has to live in the Go type ------------------------

var noNewSlots [8]*proto.GenScript

type slotCore struct {
	core
}

// carried is the exported State field of the enclosing generator value: like many hand-written generators this
// one keeps working state behind an exported pointer and nil-guards it, so it works from the zero value that
// reflect.New hands out. The prototype's field is not nil; if gengo lets it reach an instance, the state of
// that instance is the prototype's and is shared by every package of the run (I1, A1).
func (g *slotCore) bind(slot int, carried *instState) *core {
	if g.st == nil && carried != nil {
		g.st = carried
	}
	if g.script == nil {
		g.script = noNewSlots[slot]
	}
	return &g.core
}

// slots 0-3 implement AliasGenerator, 4-7 do not.
type (
	noNew0 struct {
		slotCore
		State *instState
	}
	noNew1 struct {
		slotCore
		State *instState
	}
	noNew2 struct {
		slotCore
		State *instState
	}
	noNew3 struct {
		slotCore
		State *instState
	}
	noNew4 struct {
		slotCore
		State *instState
	}
	noNew5 struct {
		slotCore
		State *instState
	}
	noNew6 struct {
		slotCore
		State *instState
	}
	noNew7 struct {
		slotCore
		State *instState
	}
)

func (g *noNew0) Name() string { return g.bind(0, g.State).Name() }
func (g *noNew1) Name() string { return g.bind(1, g.State).Name() }
func (g *noNew2) Name() string { return g.bind(2, g.State).Name() }
func (g *noNew3) Name() string { return g.bind(3, g.State).Name() }
func (g *noNew4) Name() string { return g.bind(4, g.State).Name() }
func (g *noNew5) Name() string { return g.bind(5, g.State).Name() }
func (g *noNew6) Name() string { return g.bind(6, g.State).Name() }
func (g *noNew7) Name() string { return g.bind(7, g.State).Name() }

func (g *noNew0) GenerateType(c gengo.Context, t *types.Named) error {
	return g.bind(0, g.State).GenerateType(c, t)
}
func (g *noNew1) GenerateType(c gengo.Context, t *types.Named) error {
	return g.bind(1, g.State).GenerateType(c, t)
}
func (g *noNew2) GenerateType(c gengo.Context, t *types.Named) error {
	return g.bind(2, g.State).GenerateType(c, t)
}
func (g *noNew3) GenerateType(c gengo.Context, t *types.Named) error {
	return g.bind(3, g.State).GenerateType(c, t)
}
func (g *noNew4) GenerateType(c gengo.Context, t *types.Named) error {
	return g.bind(4, g.State).GenerateType(c, t)
}
func (g *noNew5) GenerateType(c gengo.Context, t *types.Named) error {
	return g.bind(5, g.State).GenerateType(c, t)
}
func (g *noNew6) GenerateType(c gengo.Context, t *types.Named) error {
	return g.bind(6, g.State).GenerateType(c, t)
}
func (g *noNew7) GenerateType(c gengo.Context, t *types.Named) error {
	return g.bind(7, g.State).GenerateType(c, t)
}

func (g *noNew0) GenerateAliasType(c gengo.Context, t *types.Alias) error {
	return g.bind(0, g.State).generateAlias(c, t)
}
func (g *noNew1) GenerateAliasType(c gengo.Context, t *types.Alias) error {
	return g.bind(1, g.State).generateAlias(c, t)
}
func (g *noNew2) GenerateAliasType(c gengo.Context, t *types.Alias) error {
	return g.bind(2, g.State).generateAlias(c, t)
}
func (g *noNew3) GenerateAliasType(c gengo.Context, t *types.Alias) error {
	return g.bind(3, g.State).generateAlias(c, t)
}

// newSlot returns the prototype that is handed to Execute. Like a generator
// built by a constructor it already holds allocated state; gengo must not let
// that state reach the per-package instances it creates with reflect.New.
func newSlot(slot int) gengo.Generator {
	sc := slotCore{core{st: &instState{serial: rec.nextSerial(), helper: true, seen: 100}}}
	switch slot {
	case 0:
		return &noNew0{sc, sc.st}
	case 1:
		return &noNew1{sc, sc.st}
	case 2:
		return &noNew2{sc, sc.st}
	case 3:
		return &noNew3{sc, sc.st}
	case 4:
		return &noNew4{sc, sc.st}
	case 5:
		return &noNew5{sc, sc.st}
	case 6:
		return &noNew6{sc, sc.st}
	}
	return &noNew7{sc, sc.st}
}

func buildGenerators(scripts []proto.GenScript) ([]gengo.Generator, error) {
	var out []gengo.Generator
	aliasSlots := []int{0, 1, 2, 3}
	plainSlots := []int{4, 5, 6, 7}
	for i := range noNewSlots {
		noNewSlots[i] = nil
	}
	scalarSlot, scalarCores = nil, map[*scalarGen]*core{}
	for i := range scripts {
		s := &scripts[i]
		switch s.Impl {
		case "new", "probe":
			if s.NoAlias {
				out = append(out, &newGenNoAlias{core{script: s}})
			} else {
				out = append(out, &newGen{core{script: s}})
			}
		case "nonew":
			if s.Scalar && s.NoAlias && scalarSlot == nil {
				scalarSlot = s
				// like the slots' prototypes not the zero value; the value also names the prototype, because
				// gengo's registry may hand out prototypes of earlier requests of this process
				g := scalarGen(1000 * (len(scalarProtoNames) + 1))
				scalarProtoNames[g] = s.Name
				out = append(out, &g)
				continue
			}
			pool := &aliasSlots
			if s.NoAlias {
				pool = &plainSlots
			}
			if len(*pool) == 0 {
				return nil, fmt.Errorf("no free nonew slot for %s", s.Name)
			}
			slot := (*pool)[0]
			*pool = (*pool)[1:]
			noNewSlots[slot] = s
			out = append(out, newSlot(slot))
		case "real":
			gs := gengo.GetRegisteredGenerators(s.Name)
			if len(gs) != 1 {
				return nil, fmt.Errorf("real generator %q not registered", s.Name)
			}
			out = append(out, gs[0])
		default:
			return nil, fmt.Errorf("unknown impl %q", s.Impl)
		}
	}
	return out, nil
}

// fieldDocsComment: what Context.Doc says about every field of the struct obj names.
func fieldDocsComment(c gengo.Context, obj *types.TypeName) string {
	var sb strings.Builder
	sb.WriteString("\n")
	var st *types.Struct
	if obj != nil {
		st, _ = obj.Type().Underlying().(*types.Struct)
	}
	if st == nil {
		sb.WriteString("// FIELDS none\n\n")
		return sb.String()
	}
	for i := 0; i < st.NumFields(); i++ {
		f := st.Field(i)
		tags, doc := c.Doc(f)
		keys := make([]string, 0, len(tags))
		for k := range tags {
			keys = append(keys, k)
		}
		sort.Strings(keys)
		sb.WriteString("// FIELD " + f.Name() + " tags=[")
		for j, k := range keys {
			if j > 0 {
				sb.WriteString(" ")
			}
			sb.WriteString(k + "=" + strings.Join(tags[k], ","))
		}
		sb.WriteString("] doc=[" + strings.ReplaceAll(strings.Join(doc, " | "), "\n", " ") + "]\n")
	}
	sb.WriteString("\n")
	return sb.String()
}

// scalarGen: a generator without New whose type has no fields. Its working state hangs off the identity of the
// value gengo created for the package (a table keyed by the pointer); the integer counts the types it has seen.
type scalarGen int

var (
	scalarSlot  *proto.GenScript
	scalarCores = map[*scalarGen]*core{}
	// scalarProtoNames: prototype value -> generator name, for the life of the process
	scalarProtoNames = map[scalarGen]string{}
)

func (g *scalarGen) bind() *core {
	c, ok := scalarCores[g]
	if !ok {
		c = &core{script: scalarSlot}
		scalarCores[g] = c
	}
	return c
}

func (g *scalarGen) Name() string {
	if n, ok := scalarProtoNames[*g]; ok {
		return n // a prototype, of this request or of an earlier one
	}
	if scalarSlot != nil {
		return scalarSlot.Name
	}
	return ""
}

func (g *scalarGen) GenerateType(c gengo.Context, t *types.Named) error {
	*g++
	return g.bind().GenerateType(c, t)
}
