//go:build !verifhook

package main

func installHook() {}

const hookInstalled = false
