package main

import (
	"fmt"
	"os"
	"path/filepath"
	"strconv"
	"strings"
	"sync"
	"sync/atomic"
	"syscall"
	"time"

	"verifharness/proto"
	"verifharness/simrt"
)

// recorder is the single event log and fault injector of one run.
type recorder struct {
	mu      sync.Mutex
	active  atomic.Bool
	root    string
	cwd     string
	faults  []proto.Fault
	used    []bool
	events  []proto.Event
	fired   []string
	seq     int
	execSeq int
	inExec  bool
	counts  map[string]int   // occurrences per symbolic key
	offs    map[string]int64 // bytes written per path since its last truncating open
	pending *proto.Fault     // kill-after waiting for write-partial
	serial  int              // generator instance serials
	cancel  func()           // cancels the context handed to Execute
	// a cancelled caller with a slow callback: the callback in which the cancellation happens does not
	// come back before Execute has returned to its caller (returned is closed) or slowFor has passed
	returned chan struct{}
	isLate   atomic.Bool // Execute has returned: everything from now on is late
	late     []string
	lateSeen atomic.Int64
}

const slowFor = 40 * time.Millisecond

// slowCallback blocks the calling callback (no lock held) after it cancelled the caller's context.
func (r *recorder) slowCallback() {
	r.mu.Lock()
	ch := r.returned
	r.mu.Unlock()
	if ch == nil {
		return
	}
	select {
	case <-ch:
	case <-time.After(slowFor):
	}
}

func (r *recorder) firedDo(do string) bool {
	r.mu.Lock()
	defer r.mu.Unlock()
	for _, f := range r.fired {
		if strings.HasSuffix(f, ":"+do) {
			return true
		}
	}
	return false
}

func (r *recorder) noteLate(what string) {
	r.lateSeen.Add(1)
	r.mu.Lock()
	if len(r.late) < 8 {
		r.late = append(r.late, what)
	}
	r.mu.Unlock()
}

// executeReturned marks the return of Execute. If a callback is still being held back (gengo returned
// to a cancelled caller without waiting for it), it is released now and the worker waits until gengo
// has been quiet for a while, so that everything it still does is on record.
func (r *recorder) executeReturned(cancelFired bool) []string {
	r.mu.Lock()
	ch := r.returned
	r.returned = nil
	r.mu.Unlock()
	if !cancelFired || ch == nil {
		return nil
	}
	r.isLate.Store(true)
	close(ch)
	quiet, last := 0, r.lateSeen.Load()
	for i := 0; i < 100 && quiet < 6; i++ {
		time.Sleep(10 * time.Millisecond)
		if n := r.lateSeen.Load(); n != last {
			last, quiet = n, 0
		} else {
			quiet++
		}
	}
	r.isLate.Store(false)
	r.mu.Lock()
	defer r.mu.Unlock()
	return r.late
}

var rec = &recorder{}

func (r *recorder) reset(req *proto.RunReq) {
	r.mu.Lock()
	defer r.mu.Unlock()
	r.active.Store(false)
	r.root = filepath.Clean(req.Root)
	r.cwd = req.Cwd
	if r.cwd == "" {
		r.cwd = r.root
	}
	r.faults = req.Faults
	r.used = make([]bool, len(req.Faults))
	r.events = nil
	r.fired = nil
	r.seq = 0
	r.execSeq = 0
	r.inExec = false
	r.counts = map[string]int{}
	r.offs = map[string]int64{}
	r.pending = nil
	r.serial = 0
	r.returned = make(chan struct{})
	r.isLate.Store(false)
	r.late = nil
	r.lateSeen.Store(0)
}

func (r *recorder) start()     { r.active.Store(true) }
func (r *recorder) stop()      { r.active.Store(false) }
func (r *recorder) beginExec() { r.mu.Lock(); r.inExec = true; r.mu.Unlock() }

// restartExec forgets the Execute-phase events recorded so far (the first of two Execute calls on one
// executor) and returns the packages the probe saw in them.
func (r *recorder) restartExec() []string {
	r.mu.Lock()
	defer r.mu.Unlock()
	var keep []proto.Event
	var executed []string
	for _, e := range r.events {
		if e.Exec < 0 {
			keep = append(keep, e)
		} else if e.Kind == "new" && e.Gen == "probe" {
			executed = append(executed, e.Pkg)
		}
	}
	r.events = keep
	r.execSeq = 0
	for k := range r.counts {
		if strings.HasPrefix(k, "x\x00") || !strings.HasPrefix(k, "os.") {
			delete(r.counts, k)
		}
	}
	return executed
}

func (r *recorder) nextSerial() int {
	r.mu.Lock()
	defer r.mu.Unlock()
	r.serial++
	return r.serial
}

var errnos = map[string]syscall.Errno{
	"ENOSPC": syscall.ENOSPC, "EIO": syscall.EIO, "EACCES": syscall.EACCES, "EMFILE": syscall.EMFILE,
	"EISDIR": syscall.EISDIR, "ENOENT": syscall.ENOENT, "EROFS": syscall.EROFS, "EDQUOT": syscall.EDQUOT,
	"EPERM": syscall.EPERM, "EINTR": syscall.EINTR, "EBUSY": syscall.EBUSY, "ENOTDIR": syscall.ENOTDIR,
	"ENFILE": syscall.ENFILE, "ETXTBSY": syscall.ETXTBSY, "ELOOP": syscall.ELOOP, "ENAMETOOLONG": syscall.ENAMETOOLONG,
	"EFBIG": syscall.EFBIG, "EAGAIN": syscall.EAGAIN, "EXDEV": syscall.EXDEV, "ENOTEMPTY": syscall.ENOTEMPTY, "ESTALE": syscall.ESTALE,
}

type genAction int

const (
	actNone genAction = iota
	actGenError
	actGenUnparseable
	actGenPanic
)

func kill() {
	_ = syscall.Kill(syscall.Getpid(), syscall.SIGKILL)
	select {}
}

// sendSignal delivers SIGTERM or SIGINT to the process itself (a CI timeout, docker stop, ctrl-c) and
// waits a moment: without a handler the process dies right here, at this event; if somebody handles
// the signal the run goes on.
func sendSignal(do string) {
	sig := syscall.SIGTERM
	if strings.HasSuffix(do, "INT") {
		sig = syscall.SIGINT
	}
	_ = syscall.Kill(syscall.Getpid(), sig)
	time.Sleep(150 * time.Millisecond)
}

// match finds the first unused fault addressing ev (r.mu held).
func (r *recorder) match(ev *proto.Event, nth int) *proto.Fault {
	for i := range r.faults {
		f := &r.faults[i]
		if r.used[i] {
			continue
		}
		if f.ExecSeq >= 0 && f.Kind == "" {
			if ev.Exec != f.ExecSeq {
				continue
			}
		} else {
			if f.Kind != ev.Kind {
				continue
			}
			if (f.Phase == "load" && ev.Exec >= 0) || (f.Phase == "exec" && ev.Exec < 0) {
				continue
			}
			if strings.HasPrefix(ev.Kind, "os.") || ev.Kind == "phase" {
				if f.Path != ev.Path {
					continue
				}
				if f.ByOff {
					if !(ev.Off <= f.Off && f.Off < ev.Off+int64(ev.N)) {
						continue
					}
				} else if f.Nth != nth {
					continue
				}
			} else {
				if f.Gen != ev.Gen || (f.Pkg != "" && f.Pkg != ev.Pkg) || (f.Type != "" && f.Type != ev.Type) {
					continue
				}
				if f.Nth != nth {
					continue
				}
			}
		}
		r.used[i] = true
		r.fired = append(r.fired, fmt.Sprintf("%d:%s:%s", i, ev.Kind, f.Do))
		return f
	}
	return nil
}

func (r *recorder) externalEdit(f *proto.Fault) {
	p := filepath.Join(r.root, f.EditPath)
	if f.EditDelete {
		_ = syscall.Unlink(p)
		return
	}
	fd, err := syscall.Open(p, syscall.O_WRONLY|syscall.O_CREAT|syscall.O_TRUNC, 0o644)
	if err != nil {
		return
	}
	b := []byte(f.EditContent)
	for len(b) > 0 {
		n, err := syscall.Write(fd, b)
		if err != nil || n <= 0 {
			break
		}
		b = b[n:]
	}
	_ = syscall.Close(fd)
}

// osEvent is the body of os.VerifHook.
func (r *recorder) osEvent(op, path string, n int) (int, error) {
	if !r.active.Load() {
		return 0, nil
	}
	if op == "write-partial" {
		r.mu.Lock()
		p := r.pending
		r.pending = nil
		r.mu.Unlock()
		if p != nil {
			kill()
		}
		return 0, nil
	}
	if strings.HasPrefix(path, "|") {
		return 0, nil // an os/exec pipe (the output of go list), not a file of the module
	}
	first := path
	second := ""
	if i := strings.IndexByte(path, 0); i >= 0 {
		first, second = path[:i], path[i+1:]
	}
	abs := func(p string) string {
		if !filepath.IsAbs(p) {
			p = filepath.Join(r.cwd, p)
		}
		return filepath.Clean(p)
	}
	rel, ok := relUnder(r.root, abs(first))
	if op == "symlink" {
		// the link itself is the second argument
		rel, ok = relUnder(r.root, abs(second))
	} else if !ok && second != "" {
		rel, ok = relUnder(r.root, abs(second))
	}
	if !ok {
		return 0, nil
	}
	if r.isLate.Load() {
		switch op {
		case "write", "writeat", "rename", "remove", "readfrom", "symlink", "truncate":
			r.noteLate("os." + op + " " + rel)
		case "open":
			if n&(os.O_WRONLY|os.O_RDWR|os.O_CREATE|os.O_TRUNC) != 0 {
				r.noteLate("os.open(for writing) " + rel)
			}
		}
		return 0, nil
	}
	if second != "" && op != "symlink" {
		if rel2, ok2 := relUnder(r.root, abs(second)); ok2 {
			rel = rel + " -> " + rel2
		}
	}

	simrt.Tick()
	r.mu.Lock()
	ev := proto.Event{Seq: r.seq, Exec: -1, Kind: "os." + op, Path: rel, N: n}
	r.seq++
	if r.inExec {
		ev.Exec = r.execSeq
		r.execSeq++
	}
	switch op {
	case "open":
		if n&os.O_TRUNC != 0 {
			r.offs[rel] = 0
		}
	case "write":
		ev.Off = r.offs[rel]
	}
	key := ev.Kind + "\x00" + rel
	if ev.Exec >= 0 {
		key = "x\x00" + key
	}
	nth := r.counts[key]
	r.counts[key] = nth + 1
	ev.Nth = nth
	f := r.match(&ev, nth)
	if f != nil {
		ev.Fault = f.Do
	}
	r.events = append(r.events, ev)
	if f == nil {
		if op == "write" {
			r.offs[rel] += int64(n)
		}
		r.mu.Unlock()
		return 0, nil
	}
	do := f.Do
	switch {
	case do == "kill":
		kill()
	case strings.HasPrefix(do, "kill-after:"):
		j, _ := strconv.Atoi(do[len("kill-after:"):])
		if op != "write" || j <= 0 {
			kill()
		}
		r.pending = f
		r.mu.Unlock()
		return j, syscall.EINTR
	case do == "edit":
		r.externalEdit(f)
		if op == "write" {
			r.offs[rel] += int64(n)
		}
		r.mu.Unlock()
		return 0, nil
	case do == "cancel":
		if r.cancel != nil {
			r.cancel()
		}
		if op == "write" {
			r.offs[rel] += int64(n)
		}
		r.mu.Unlock()
		return 0, nil
	case strings.HasPrefix(do, "signal:"):
		if op == "write" {
			r.offs[rel] += int64(n)
		}
		r.mu.Unlock()
		sendSignal(do)
		return 0, nil
	case strings.HasPrefix(do, "errno:"):
		e := errnos[do[len("errno:"):]]
		if e == 0 {
			e = syscall.EIO
		}
		r.mu.Unlock()
		return 0, e
	case strings.HasPrefix(do, "short:"):
		parts := strings.Split(do, ":")
		j, _ := strconv.Atoi(parts[1])
		e := syscall.ENOSPC
		if len(parts) > 2 && errnos[parts[2]] != 0 {
			e = errnos[parts[2]]
		}
		if op == "write" {
			if j > n {
				j = n
			}
			r.offs[rel] += int64(j)
		}
		r.mu.Unlock()
		return j, e
	}
	r.mu.Unlock()
	return 0, nil
}

// point records a non-os event (generator callback, phase marker) and returns
// the generator-level action a fault asks for.
func (r *recorder) point(kind string, path string) genAction {
	return r.genEvent(proto.Event{Kind: kind, Path: path})
}

func (r *recorder) genEvent(ev proto.Event) genAction {
	if !r.active.Load() {
		return actNone
	}
	if r.isLate.Load() {
		if ev.Kind != "phase" {
			r.noteLate(ev.Kind + " " + ev.Gen + " " + ev.Pkg + " " + ev.Type)
		}
		return actNone
	}
	simrt.Tick()
	r.mu.Lock()
	ev.Seq = r.seq
	r.seq++
	ev.Exec = -1
	if r.inExec {
		ev.Exec = r.execSeq
		r.execSeq++
	}
	var key string
	if ev.Kind == "phase" {
		key = ev.Kind + "\x00" + ev.Path
	} else {
		key = ev.Kind + "\x00" + ev.Gen + "\x00" + ev.Pkg + "\x00" + ev.Type
	}
	nth := r.counts[key]
	r.counts[key] = nth + 1
	// a fault that leaves Pkg/Type open counts occurrences per generator
	gkey := ev.Kind + "\x00" + ev.Gen + "\x00*"
	gnth := r.counts[gkey]
	r.counts[gkey] = gnth + 1
	var f *proto.Fault
	for i := range r.faults {
		ff := &r.faults[i]
		if r.used[i] || ff.Kind != ev.Kind || ff.Kind == "" {
			continue
		}
		if ev.Kind != "phase" && ff.Pkg == "" && ff.Type == "" && ff.Gen == ev.Gen && ff.Nth == gnth {
			r.used[i] = true
			r.fired = append(r.fired, fmt.Sprintf("%d:%s:%s", i, ev.Kind, ff.Do))
			f = ff
			break
		}
	}
	if f == nil {
		f = r.match(&ev, nth)
	}
	if f != nil {
		ev.Fault = f.Do
	}
	r.events = append(r.events, ev)
	r.mu.Unlock()
	if f == nil {
		return actNone
	}
	switch {
	case f.Do == "kill" || strings.HasPrefix(f.Do, "kill-after"):
		kill()
	case f.Do == "edit":
		r.externalEdit(f)
	case f.Do == "cancel":
		if r.cancel != nil {
			r.cancel()
		}
		r.slowCallback()
	case strings.HasPrefix(f.Do, "signal:"):
		sendSignal(f.Do)
	case f.Do == "gen-error":
		return actGenError
	case f.Do == "gen-unparseable":
		return actGenUnparseable
	case f.Do == "gen-panic":
		return actGenPanic
	}
	return actNone
}
