package main

import (
	"time"

	"verifharness/sim"
)

var inflComponents = map[string]string{
	"pkg/inflector (api, rules, memoisation)": "real code from /repo's working tree",
	"package sync inside pkg/inflector/...":   "scheduled leg: replaced by simsync (cooperative Map, OnceValue, Once, Mutex, RWMutex, WaitGroup) via build overlay; race leg: the real package sync under -race",
	"goroutine scheduling":                    "scheduled leg: one goroutine runs at a time, the next one is drawn from the seed at every synchronisation point; race leg: the Go runtime (GOMAXPROCS=16), not controlled",
	"regexp, strings":                         "real, unmodified",
}

var inflAssumptions = []string{
	"simsync.Map operations are atomic steps: complete for observable behaviour because sync.Map is linearizable per operation",
	"data races on unsynchronised memory are invisible to a cooperative scheduler; they are looked for by the -race leg, whose schedule is not controlled",
	"the irregular/uninflected word lists of the workload are English nouns hard-coded in the harness; the oracles are agreement with a fresh sequential run and the relation f(prefix+w) = prefix+f(w)",
	"a clean batch is evidence over the sampled histories and schedules, not a proof",
}

var props = map[string]*propDef{
	"C06": {
		level: "exploration", engine: "gensim",
		rule:    "each simulation draws a module (declaration kinds x tag placements at global/package/declaration level x generator names that are prefixes of one another), scripted generators and 1-3 runs under asc/desc/rotated/shuffled map orders; the callback trace is compared with the enabled set computed from the spec by the rule of the property text; distinct = distinct (package count, op-kind sequence); non-trivial = at least one package executed",
		sims:    map[string]int{"quick": 150, "thorough": 20000},
		budget:  map[string]time.Duration{"quick": 40 * time.Second, "thorough": 15 * time.Minute},
		explore: func(c *sim.CheckCtx) { c.Explore("c06", sim.SimC06) },
	},
	"C07": {
		level: "exploration", engine: "gensim",
		rule:    "each simulation is a history of 3-7 ops (runs with varying generator subsets, All on/off, Force; source edits; planted stale outputs and look-alike files; broken go.mod; runs with generator errors, injected I/O errors or a SIGKILL at a random event) over a world full of files gengo must not touch; the whole tree is snapshotted before and after every run; distinct = distinct (package count, op-kind sequence incl. fault kinds)",
		sims:    map[string]int{"quick": 100, "thorough": 12000},
		budget:  map[string]time.Duration{"quick": 45 * time.Second, "thorough": 15 * time.Minute},
		explore: func(c *sim.CheckCtx) { c.Explore("c07", sim.SimC07) },
	},
	"C08": {
		level: "exploration", engine: "gensim",
		rule:    "each simulation is a history of 4-9 ops over {edit/add/delete a file, delete or corrupt gengo.sum (8 kinds), plant an unhashable entry, run, run with Force, run on a subset, failing run, killed run, external edit between load and execute, converge} against a reference model of the cache; distinct = distinct (package count, op-kind sequence incl. fault kinds)",
		sims:    map[string]int{"quick": 100, "thorough": 12000},
		budget:  map[string]time.Duration{"quick": 45 * time.Second, "thorough": 15 * time.Minute},
		explore: func(c *sim.CheckCtx) { c.Explore("c08", sim.SimC08) },
	},
	"C20": {
		level: "exploration", engine: "inflsim",
		rule:    "each simulation is a batch of 12 histories (2-4 client goroutines, 2-6 calls each, fresh tokens so that cache misses happen under contention) executed in one fresh worker under a seeded cooperative scheduler, compared call by call with a sequential reference run in another fresh process; every 8th batch is also run 8x with real goroutines under the race detector; distinct = distinct (client/call shape, schedule seed class) of histories; distinct_traces counts distinct schedules (goroutine id lists)",
		sims:    map[string]int{"quick": 300, "thorough": 200000},
		budget:  map[string]time.Duration{"quick": 25 * time.Second, "thorough": 15 * time.Minute},
		explore: func(c *sim.CheckCtx) { c.Explore("c20", sim.SimC20) },
	},
	"C04": {
		level: "exploration", engine: "gensim",
		rule:    "each simulation draws a module, generator scripts and arguments from the seed and executes the same world under asc/desc/shuffled/rotated map orders at every iteration site, permuted entrypoints, fresh and warm worker processes, plus a three-run fixed-point history; distinct = distinct (package count, shadowing kinds, All, entrypoint count, go version, generator names) among simulations in which at least one package was generated",
		sims:    map[string]int{"quick": 40, "thorough": 4000},
		budget:  map[string]time.Duration{"quick": 40 * time.Second, "thorough": 15 * time.Minute},
		explore: func(c *sim.CheckCtx) { c.Explore("c04", sim.SimC04) },
	},
}
