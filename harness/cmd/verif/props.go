package main

import (
	"time"

	"verifharness/sim"
)

var inflComponents = map[string]string{
	"pkg/inflector (api, rules, memoisation)": "real code from /repo's working tree",
	"package sync inside pkg/inflector/...":   "scheduled leg: replaced by simsync (cooperative Map, OnceValue, Once, Mutex, RWMutex, WaitGroup) via build overlay; race leg: the real package sync under -race",
	"goroutine scheduling":                    "scheduled leg: one goroutine runs at a time, the next one is drawn from the seed at every synchronisation point; race leg: the Go runtime (GOMAXPROCS=16), not controlled",
	"regexp, strings":                         "real, unmodified",
}

var inflAssumptions = []string{
	"simsync.Map operations are atomic steps: complete for observable behaviour because sync.Map is linearizable per operation",
	"data races on unsynchronised memory are invisible to a cooperative scheduler; they are looked for by the -race leg, whose schedule is not controlled",
	"the irregular/uninflected word lists of the workload are English nouns hard-coded in the harness; the oracles are agreement with a fresh sequential run and the relation f(prefix+w) = prefix+f(w)",
	"a clean batch is evidence over the sampled histories and schedules, not a proof",
}

var props = map[string]*propDef{
	"C05": {
		level: "exploration", engine: "gensim",
		rule:    "each simulation forks one world: variants run a seeded selection of packages together (two orders, and through All) and every package alone, with stateful scripted generators (helper-emitted flag, per-instance counters; with and without New) or the real runtimedoc/deepcopy/defaulter generators, under seeded map orders; per-package outputs are compared byte for byte and generator instances are traced; distinct = distinct (package count, selection size, real/scripted, generator names, go version)",
		sims:    map[string]int{"quick": 150, "thorough": 6000},
		budget:  map[string]time.Duration{"quick": 40 * time.Second, "thorough": 15 * time.Minute},
		explore: func(c *sim.CheckCtx) { c.Explore("c05", sim.SimC05) },
	},
	"C13": {
		level: "exploration", engine: "gensim",
		rule:    "each simulation draws a module (local types and type parameters shadowing package-level names, generic receivers, grouped declarations, diamond imports, optionally with generated files from an earlier run) and loads it with gengo's loader under asc/desc/shuffled orders of types.Info.Defs, packages.Package.Imports and Universe.pkgs; every accessor of every module package is compared with go/types and go/ast inside the worker; distinct = distinct (package count, shadowing kinds, generics, entrypoint count, go version)",
		sims:    map[string]int{"quick": 300, "thorough": 15000},
		budget:  map[string]time.Duration{"quick": 35 * time.Second, "thorough": 15 * time.Minute},
		explore: func(c *sim.CheckCtx) { c.Explore("c13", sim.SimC13) },
	},
	"C01": {
		level: "fault_enumeration", engine: "gensim",
		rule:    "each simulation draws a module and scripted generators (declaration pool with comments, odd whitespace, std and in-module references, new named types), runs it fault-free (F1-F6 on every written file: go/parser, header comment, package name, token-for-token comparison with the rendered declarations, gofmt and gofumpt fixed points) and then re-runs it once per enumerated I/O failure point of the recorded trace (every write-open of every output file and of gengo.sum with 3-6 errnos, first/last/middle/random writes with ENOSPC/EIO/EDQUOT and a short count, every remove); distinct = distinct (world, failure point); non-trivial = the fault fired",
		sims:    map[string]int{"quick": 24, "thorough": 3000},
		budget:  map[string]time.Duration{"quick": 25 * time.Second, "thorough": 15 * time.Minute},
		explore: func(c *sim.CheckCtx) { c.Explore("c01", sim.SimC01) },
	},
	"C02": {
		level: "fault_enumeration", engine: "gensim",
		rule:    "each simulation builds a world that already holds outputs and a gengo.sum, edits sources, records the victim run fault-free and re-runs it once per failure point of the recorded trace: an error from every GenerateType/GenerateAliasType/Defer callback, unparseable rendering for every (generator, package), a real SIGKILL before every event of the Execute phase (all events in the quick tier's small worlds, a stratified sample in thorough), torn writes; each faulty variant is followed by fault-free recovery runs and compared with the never-failed execution; distinct = distinct (world, failure point)",
		sims:    map[string]int{"quick": 12, "thorough": 600},
		budget:  map[string]time.Duration{"quick": 30 * time.Second, "thorough": 20 * time.Minute},
		explore: func(c *sim.CheckCtx) { c.Explore("c02", sim.SimC02) },
	},
	"C06": {
		level: "exploration", engine: "gensim",
		rule:    "each simulation draws a module (declaration kinds x tag placements at global/package/declaration level x generator names that are prefixes of one another), scripted generators and 1-3 runs under asc/desc/rotated/shuffled map orders; the callback trace is compared with the enabled set computed from the spec by the rule of the property text; distinct = distinct (package count, op-kind sequence); non-trivial = at least one package executed",
		sims:    map[string]int{"quick": 500, "thorough": 20000},
		budget:  map[string]time.Duration{"quick": 40 * time.Second, "thorough": 15 * time.Minute},
		explore: func(c *sim.CheckCtx) { c.Explore("c06", sim.SimC06) },
	},
	"C07": {
		level: "exploration", engine: "gensim",
		rule:    "each simulation is a history of 3-7 ops (runs with varying generator subsets, All on/off, Force; source edits; planted stale outputs and look-alike files; broken go.mod; runs with generator errors, injected I/O errors or a SIGKILL at a random event) over a world full of files gengo must not touch; the whole tree is snapshotted before and after every run; distinct = distinct (package count, op-kind sequence incl. fault kinds)",
		sims:    map[string]int{"quick": 480, "thorough": 20000},
		budget:  map[string]time.Duration{"quick": 45 * time.Second, "thorough": 15 * time.Minute},
		explore: func(c *sim.CheckCtx) { c.Explore("c07", sim.SimC07) },
	},
	"C08": {
		level: "exploration", engine: "gensim",
		rule:    "each simulation is a history of 4-9 ops over {edit/add/delete a file, delete or corrupt gengo.sum (8 kinds), plant an unhashable entry, run, run with Force, run on a subset, failing run, killed run, external edit between load and execute, converge} against a reference model of the cache; distinct = distinct (package count, op-kind sequence incl. fault kinds)",
		sims:    map[string]int{"quick": 400, "thorough": 20000},
		budget:  map[string]time.Duration{"quick": 45 * time.Second, "thorough": 15 * time.Minute},
		explore: func(c *sim.CheckCtx) { c.Explore("c08", sim.SimC08) },
	},
	"C20": {
		level: "exploration", engine: "inflsim",
		rule:    "each simulation is a batch of 12 histories (2-4 client goroutines, 2-6 calls each, fresh tokens so that cache misses happen under contention) executed in one fresh worker under a seeded cooperative scheduler, compared call by call with a sequential reference run in another fresh process; every 8th batch is also run 8x with real goroutines under the race detector; distinct = distinct (client/call shape, schedule seed class) of histories; distinct_traces counts distinct schedules (goroutine id lists)",
		sims:    map[string]int{"quick": 300, "thorough": 200000},
		budget:  map[string]time.Duration{"quick": 25 * time.Second, "thorough": 15 * time.Minute},
		explore: func(c *sim.CheckCtx) { c.Explore("c20", sim.SimC20) },
	},
	"C04": {
		level: "exploration", engine: "gensim",
		rule:    "each simulation draws a module, generator scripts and arguments from the seed and executes the same world under asc/desc/shuffled/rotated map orders at every iteration site, permuted entrypoints, fresh and warm worker processes, plus a three-run fixed-point history; distinct = distinct (package count, shadowing kinds, All, entrypoint count, go version, generator names) among simulations in which at least one package was generated",
		sims:    map[string]int{"quick": 60, "thorough": 4000},
		budget:  map[string]time.Duration{"quick": 40 * time.Second, "thorough": 15 * time.Minute},
		explore: func(c *sim.CheckCtx) { c.Explore("c04", sim.SimC04) },
	},
}
