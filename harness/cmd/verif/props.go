package main

import (
	"time"

	"verifharness/sim"
)

var inflComponents = map[string]string{}
var inflAssumptions = []string{}

var props = map[string]*propDef{
	"C04": {
		level: "exploration", engine: "gensim",
		rule:    "each simulation draws a module, generator scripts and arguments from the seed and executes the same world under asc/desc/shuffled/rotated map orders at every iteration site, permuted entrypoints, fresh and warm worker processes, plus a three-run fixed-point history; distinct = distinct (package count, shadowing kinds, All, entrypoint count, go version, generator names) among simulations in which at least one package was generated",
		sims:    map[string]int{"quick": 40, "thorough": 4000},
		budget:  map[string]time.Duration{"quick": 40 * time.Second, "thorough": 15 * time.Minute},
		explore: func(c *sim.CheckCtx) { c.Explore("c04", sim.SimC04) },
	},
}
