// Command verif is the driver of the deterministic simulation:
//
//	verif check <property> <quick|thorough>
//	verif replay <file>
//	verif selftest
package main

import (
	"encoding/json"
	"fmt"
	"os"
	"path/filepath"
	"runtime"
	"strconv"
	"strings"
	"time"

	"verifharness/buildw"
	"verifharness/instrument"
	"verifharness/sim"
)

func fatal2(format string, args ...any) {
	fmt.Printf("ERROR "+format+"\n", args...)
	os.Exit(2)
}

func verifDir() string {
	if d := os.Getenv("VERIF_DIR"); d != "" {
		return d
	}
	exe, err := os.Executable()
	if err == nil {
		d := filepath.Dir(filepath.Dir(exe))
		if _, err := os.Stat(filepath.Join(d, "properties.jsonl")); err == nil {
			return d
		}
	}
	return "/verif"
}

func scratchDir() string {
	base := os.Getenv("VERIF_SCRATCH")
	if base == "" {
		base = "/dev/shm"
		if st, err := os.Stat(base); err != nil || !st.IsDir() {
			base = os.TempDir()
		}
	}
	d, err := os.MkdirTemp(base, "verif-")
	if err != nil {
		d, err = os.MkdirTemp("", "verif-")
		if err != nil {
			fatal2("cannot create scratch directory: %v", err)
		}
	}
	return d
}

type propDef struct {
	level   string
	engine  string
	rule    string
	sims    map[string]int           // tier -> max simulations
	budget  map[string]time.Duration // tier -> wall-clock budget of the exploration
	explore func(c *sim.CheckCtx)
}

var gensimComponents = map[string]string{
	"gengo (pkg/gengo, pkg/types, pkg/sumfile, pkg/namer, snippet, devpkg generators)": "real code from /repo's working tree",
	"go list, go/packages, go/parser, go/types, x/mod dirhash, go/format, gofumpt":     "real, unmodified",
	"file system": "real tmpfs directory per world; outcome of an os call simulated only when a fault is scheduled (patched os package via build overlay)",
	"map iteration order (all sites in gengo)": "real statements, order chosen by the schedule (simrt via build overlay)",
	"process death":       "real SIGKILL (or a self-delivered SIGTERM/SIGINT) of the worker process at the scheduled event",
	"clock":               "time.Now/Since/Until/Sleep inside gengo's packages read the simulator's clock (build overlay): the machine's, a frozen one, one on which every recorded event takes a fixed time, or a seeded jumpy one; on this tree gengo reads it only to log durations (2 sites). File modification times are set by the driver's ops (kept, far past, future)",
	"process environment": "working directory (module root or a package directory), a module below a symlinked directory, TMPDIR on another file system than the worlds, read-only and aged files: chosen per scenario",
	"user generators":     "scripted stubs implementing gengo.Generator / AliasGenerator / GeneratorNewer, plus the real devpkg generators",
	"map iteration inside dependencies (go/types, octohelm/x)": "real, not controlled (reaches gengo only through ordered APIs or re-ordered range sites)",
}

var gensimAssumptions = []string{
	"the instrumented build (overlay) is a legal execution of the original program, not the same binary",
	"power loss (loss of completed writes) is not modelled; a crash is a process death",
	"close(2) errors are not injected; the go list subprocess is real and un-instrumented",
	"a clean batch is evidence over the sampled scenarios, not a proof",
}

func main() {
	if len(os.Args) < 2 {
		fatal2("usage: verif check <property> <quick|thorough> | replay <file> | selftest")
	}
	switch os.Args[1] {
	case "check":
		if len(os.Args) < 4 {
			fatal2("usage: verif check <property> <quick|thorough>")
		}
		os.Exit(runCheck(os.Args[2], os.Args[3]))
	case "replay":
		if len(os.Args) < 3 {
			fatal2("usage: verif replay <file>")
		}
		os.Exit(runReplay(os.Args[2]))
	case "selftest":
		os.Exit(runSelfTest())
	case "warm":
		os.Exit(runWarm())
	case "instrument":
		// verif instrument <repo> <outdir>: write the rewritten gengo sources for inspection
		ov, sites, err := instrument.RewriteRepo(os.Args[2], os.Args[3], instrument.Options{Order: true})
		if err != nil {
			fatal2("%v", err)
		}
		for _, s := range sites {
			fmt.Println(s.ID, s.Kind, s.KeyType)
		}
		fmt.Println(len(ov), "files rewritten")
		os.Exit(0)
	default:
		fatal2("unknown command %q", os.Args[1])
	}
}

func seedFromEnv() int64 {
	if s := os.Getenv("VERIF_SEED"); s != "" {
		if v, err := strconv.ParseInt(s, 10, 64); err == nil {
			return v
		}
	}
	return 1
}

type built struct {
	env   *sim.Env
	sites []instrument.Site
}

func buildEnv(scratch string, engine string) (*built, error) {
	env := &sim.Env{Scratch: filepath.Join(scratch, "worlds"), Timeout: 60 * time.Second, Stats: sim.NewStats()}
	if err := os.MkdirAll(env.Scratch, 0o755); err != nil {
		return nil, err
	}
	repo := os.Getenv("VERIF_REPO")
	if repo == "" {
		repo = "/repo"
	}
	b := &built{env: env}
	switch engine {
	case "gensim":
		res, err := buildw.Build(buildw.Options{RepoDir: repo, Scratch: scratch, Cmd: "simworker", Order: true, OSHook: true})
		if err != nil {
			return nil, err
		}
		env.WorkerBin, env.GoRoot, b.sites = res.Bin, res.GoRoot, res.Sites
		if os.Getenv("VERIF_NO_RACE_LEG") == "" {
			// the same worker under the race detector: a sample of the scenarios is re-executed with it
			race, err := buildw.Build(buildw.Options{RepoDir: repo, Scratch: scratch, Cmd: "simworker", Order: true, OSHook: true, Race: true})
			if err != nil {
				return nil, err
			}
			env.RaceWorkerBin = race.Bin
		}
	case "inflsim":
		res, err := buildw.Build(buildw.Options{RepoDir: repo, Scratch: scratch, Cmd: "inflworker", Sync: true})
		if err != nil {
			return nil, err
		}
		env.InflBin, env.GoRoot, b.sites = res.Bin, res.GoRoot, res.Sites
		race, err := buildw.Build(buildw.Options{RepoDir: repo, Scratch: scratch, Cmd: "inflrace", Race: true})
		if err != nil {
			return nil, err
		}
		env.InflRace = race.Bin
	}
	return b, nil
}

func runCheck(prop, tier string) int {
	def, ok := props[prop]
	if !ok {
		fatal2("property %s is not claimed by this framework", prop)
	}
	if tier != "quick" && tier != "thorough" {
		fatal2("tier must be quick or thorough")
	}
	seed := seedFromEnv()
	fmt.Printf("VERIF_SEED=%d property=%s tier=%s\n", seed, prop, tier)
	start := time.Now()
	scratch := scratchDir()
	defer os.RemoveAll(scratch)
	b, err := buildEnv(scratch, def.engine)
	if err != nil {
		fmt.Printf("ERROR property=%s cannot build the instrumented worker from the current tree: %v\n", prop, err)
		return 2
	}
	fmt.Printf("built %s worker in %.1fs (%d seam sites)\n", def.engine, time.Since(start).Seconds(), len(b.sites))
	if def.engine == "gensim" {
		if err := sim.SelfTestPool(); err != nil {
			fmt.Printf("ERROR property=%s harness self-test: %v\n", prop, err)
			return 2
		}
	}
	vd := verifDir()
	findings, err := sim.LoadFindings(filepath.Join(vd, "known_findings.json"))
	if err != nil {
		fmt.Printf("ERROR property=%s %v\n", prop, err)
		return 2
	}
	budget := def.budget[tier]
	if s := os.Getenv("VERIF_BUDGET_S"); s != "" {
		if v, err := strconv.Atoi(s); err == nil {
			budget = time.Duration(v) * time.Second
		}
	}
	par := runtime.NumCPU()
	if s := os.Getenv("VERIF_PAR"); s != "" {
		if v, err := strconv.Atoi(s); err == nil && v > 0 {
			par = v
		}
	}
	if s := os.Getenv("VERIF_WORKER_GOMAXPROCS"); s != "" {
		if v, err := strconv.Atoi(s); err == nil {
			b.env.GoMaxProcs = v
		}
	}
	maxSims := def.sims[tier]
	if s := os.Getenv("VERIF_SIMS"); s != "" {
		if v, err := strconv.Atoi(s); err == nil {
			maxSims = v
		}
	}
	c := &sim.CheckCtx{Prop: prop, Tier: tier, Seed: seed, Env: b.env, Par: par, Deadline: time.Now().Add(budget), MaxSims: maxSims,
		Findings: findings, Out: os.Stdout, ReplayDir: filepath.Join(vd, "replays"), VerifDir: vd,
		RaceSamples: map[string]int{"quick": 6, "thorough": 150}[tier], RaceBudget: map[string]time.Duration{"quick": 8 * time.Second, "thorough": 4 * time.Minute}[tier]}
	if tier == "quick" {
		// the quick tier is a fixed batch: a busy machine makes it slower, not smaller (within four budgets)
		c.MinSims, c.HardDeadline = maxSims, c.Deadline.Add(3*budget)
	}
	def.explore(c)
	c.RaceLeg()
	code := c.Finish(time.Since(start))
	wall := time.Since(start)
	comps := gensimComponents
	assume := gensimAssumptions
	if def.engine == "inflsim" {
		comps, assume = inflComponents, inflAssumptions
	}
	if err := sim.WriteEvidence(c, def.level, wall, b.sites, def.rule, assume, comps); err != nil {
		fmt.Printf("ERROR property=%s evidence: %v\n", prop, err)
		return 2
	}
	if o := c.OtherSummary(); len(o) > 0 {
		fmt.Printf("note: violations of other properties seen on the side (decided by their own checks): %v\n", o)
	}
	st := b.env.Stats
	fmt.Printf("property=%s tier=%s seed=%d runs=%d events=%d wall=%.1fs exit=%d\n", prop, tier, seed, st.Get("runs")+st.Get("infl-histories"), st.Get("events")+st.Get("infl-steps"), wall.Seconds(), code)
	return code
}

func runReplay(path string) int {
	data, err := os.ReadFile(path)
	if err != nil {
		fatal2("%v", err)
	}
	var rf sim.ReplayFile
	if err := json.Unmarshal(data, &rf); err != nil {
		fatal2("%s: %v", path, err)
	}
	def, ok := props[rf.Property]
	if !ok {
		fatal2("property %s unknown", rf.Property)
	}
	scratch := scratchDir()
	defer os.RemoveAll(scratch)
	b, err := buildEnv(scratch, def.engine)
	if err != nil {
		fmt.Printf("ERROR cannot build: %v\n", err)
		return 2
	}
	key := rf.Property + "/" + rf.Oracle + "/" + rf.Class
	attempts := 5
	if rf.Class == "data-race" && b.env.RaceWorkerBin != "" && rf.Scenario.Infl == nil {
		b.env.WorkerBin, b.env.GoMaxProcs, b.env.Timeout = b.env.RaceWorkerBin, 16, 4*b.env.Timeout
	}
	if strings.HasSuffix(rf.Class, "/control") || rf.Class == "data-race" || (rf.Scenario.Infl != nil && rf.Scenario.Infl.Race) {
		// nondeterminism under identical schedules, or the race-detector leg: replays statistically
		attempts = 20
	}
	var out *sim.Outcome
	for a := 0; a < attempts; a++ {
		out, err = sim.ExecuteScenario(b.env, rf.Scenario)
		if err != nil {
			fmt.Printf("ERROR %v\n", err)
			return 2
		}
		for _, v := range out.Violations {
			if v.Key() == key {
				fmt.Printf("VIOLATION property=%s replay=%s\n", rf.Property, path)
				fmt.Printf("  oracle=%s class=%s (attempt %d): %s\n", v.Oracle, v.Class, a+1, v.Detail)
				return 1
			}
		}
	}
	fmt.Printf("not reproduced: %s (violations now: %d)\n", key, len(out.Violations))
	for _, v := range out.Violations {
		fmt.Printf("  other: %s: %s\n", v.Key(), v.Detail)
	}
	return 0
}

// runWarm builds every worker once so that later checks hit the build cache.
func runWarm() int {
	scratch := scratchDir()
	defer os.RemoveAll(scratch)
	for _, engine := range []string{"gensim", "inflsim"} {
		t0 := time.Now()
		if _, err := buildEnv(scratch, engine); err != nil {
			fmt.Printf("ERROR warm %s: %v\n", engine, err)
			return 2
		}
		fmt.Printf("warmed %s in %.1fs\n", engine, time.Since(t0).Seconds())
	}
	return 0
}

func runSelfTest() int {
	if err := sim.SelfTestPool(); err != nil {
		fmt.Println("ERROR", err)
		return 2
	}
	fmt.Println("pool self-test ok")
	return 0
}
