// Command inflrace is the race-detector leg of C20: the unmodified inflector
// (real package sync), real goroutines, built with -race. It reads histories
// (JSON lines: [][]Call) on stdin and prints the results; a data race makes the
// race detector write a report to stderr and exit with status 66.
package main

import (
	"bufio"
	"encoding/json"
	"fmt"
	"os"
	"sync"

	"github.com/octohelm/gengo/pkg/inflector"

	"verifharness/inflproto"
)

func call(c inflproto.Call) (res inflproto.Result) {
	defer func() {
		if r := recover(); r != nil {
			res.Panic = fmt.Sprint(r)
		}
	}()
	switch c.Op {
	case "P":
		res.SetRet(inflector.Pluralize(c.Raw()))
	case "S":
		res.SetRet(inflector.Singularize(c.Raw()))
	}
	return
}

func main() {
	rd := bufio.NewReaderSize(os.Stdin, 1<<20)
	enc := json.NewEncoder(os.Stdout)
	for {
		line, err := rd.ReadBytes('\n')
		if len(line) > 1 {
			var clients [][]inflproto.Call
			if jerr := json.Unmarshal(line, &clients); jerr != nil {
				fmt.Fprintln(os.Stderr, "inflrace: bad input:", jerr)
				os.Exit(2)
			}
			results := make([][]inflproto.Result, len(clients))
			var wg sync.WaitGroup
			start := make(chan struct{})
			for ci := range clients {
				wg.Add(1)
				go func(ci int) {
					defer wg.Done()
					<-start
					for _, c := range clients[ci] {
						results[ci] = append(results[ci], call(c))
					}
				}(ci)
			}
			close(start)
			wg.Wait()
			_ = enc.Encode(results)
		}
		if err != nil {
			return
		}
	}
}
