// Command inflrace is the race-detector leg of C20: the unmodified inflector
// (real package sync), real goroutines, built with -race. It reads histories
// (JSON lines: [][]Call) on stdin and prints the results; a data race makes the
// race detector write a report to stderr and exit with status 66.
package main

import (
	"bufio"
	"encoding/json"
	"fmt"
	"os"
	"sync"

	"github.com/octohelm/gengo/pkg/inflector"

	"verifharness/inflproto"
)

func call(c inflproto.Call) (res inflproto.Result) {
	defer func() {
		if r := recover(); r != nil {
			res.Panic = fmt.Sprint(r)
		}
	}()
	switch c.Op {
	case "P":
		res.SetRet(inflector.Pluralize(c.Raw()))
	case "S":
		res.SetRet(inflector.Singularize(c.Raw()))
	}
	return
}

// volume inflects n distinct inputs of one length (so that a cache keyed by a short digest plus the
// length has its best chance to collide; n past any plausible cache bound), each ending in an irregular
// word of the rule type asked, and checks each result against the prefix clause; g goroutines share the work.
func volume(req *inflproto.Req) *inflproto.Resp {
	resp := &inflproto.Resp{ID: req.ID}
	g := req.Goroutines
	if g < 1 {
		g = 1
	}
	type rule struct {
		f     func(string) string
		name  string
		words []string
		alone map[string]string
	}
	rules := []*rule{{f: inflector.Pluralize, name: "Pluralize", words: req.PWords}, {f: inflector.Singularize, name: "Singularize", words: req.SWords}}
	for _, r := range rules {
		r.alone = map[string]string{}
		for _, w := range r.words {
			r.alone[w] = r.f(w)
		}
	}
	var mu sync.Mutex
	report := func(format string, args ...any) {
		mu.Lock()
		if len(resp.Mismatches) < 5 {
			resp.Mismatches = append(resp.Mismatches, fmt.Sprintf(format, args...))
		}
		mu.Unlock()
	}
	var wg sync.WaitGroup
	for k := 0; k < g; k++ {
		wg.Add(1)
		go func(k int) {
			defer wg.Done()
			defer func() {
				if r := recover(); r != nil {
					report("panic: %v", r)
				}
			}()
			checked := 0
			for i := k; i < req.N; i += g {
				for _, r := range rules {
					w := r.words[i%len(r.words)]
					in := inflproto.VolumeInput(req.Tag, i, w)
					want := in[:len(in)-len(w)] + r.alone[w]
					if got := r.f(in); got != want {
						report("%s(%q) = %q, want %q", r.name, in, got, want)
					}
					checked++
					if i%97 == 0 && i > 0 {
						// an earlier input again: the same answer as the first time
						j := i / 2
						w2 := r.words[j%len(r.words)]
						in2 := inflproto.VolumeInput(req.Tag, j, w2)
						if got := r.f(in2); got != in2[:len(in2)-len(w2)]+r.alone[w2] {
							report("asked again: %s(%q) = %q", r.name, in2, got)
						}
						checked++
					}
				}
			}
			mu.Lock()
			resp.Checked += checked
			mu.Unlock()
		}(k)
	}
	wg.Wait()
	return resp
}

func main() {
	if len(os.Args) > 1 && os.Args[1] == "volume" {
		var req inflproto.Req
		if err := json.NewDecoder(os.Stdin).Decode(&req); err != nil {
			os.Exit(2)
		}
		_ = json.NewEncoder(os.Stdout).Encode(volume(&req))
		return
	}
	rd := bufio.NewReaderSize(os.Stdin, 1<<20)
	enc := json.NewEncoder(os.Stdout)
	for {
		line, err := rd.ReadBytes('\n')
		if len(line) > 1 {
			var clients [][]inflproto.Call
			if jerr := json.Unmarshal(line, &clients); jerr != nil {
				fmt.Fprintln(os.Stderr, "inflrace: bad input:", jerr)
				os.Exit(2)
			}
			results := make([][]inflproto.Result, len(clients))
			var wg sync.WaitGroup
			start := make(chan struct{})
			for ci := range clients {
				wg.Add(1)
				go func(ci int) {
					defer wg.Done()
					<-start
					for _, c := range clients[ci] {
						results[ci] = append(results[ci], call(c))
					}
				}(ci)
			}
			close(start)
			wg.Wait()
			_ = enc.Encode(results)
		}
		if err != nil {
			return
		}
	}
}
