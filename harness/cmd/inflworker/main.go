// Command inflworker runs gengo's inflector under the cooperative scheduler
// (package sync in pkg/inflector/... is rewritten to simsync by the overlay).
package main

import (
	"bufio"
	"encoding/json"
	"fmt"
	"os"
	"runtime"
	"strings"
	"sync"
	"time"

	"github.com/octohelm/gengo/pkg/inflector"

	"verifharness/inflproto"
	"verifharness/simsync"
)

func call(c inflproto.Call) (res inflproto.Result) {
	defer func() {
		if r := recover(); r != nil {
			res.Panic = fmt.Sprint(r)
		}
	}()
	switch c.Op {
	case "P":
		res.SetRet(inflector.Pluralize(c.Raw()))
	case "S":
		res.SetRet(inflector.Singularize(c.Raw()))
	default:
		res.Panic = "unknown op"
	}
	return
}

// volume inflects n distinct inputs of one length (so that a cache keyed by a short digest plus the
// length has its best chance to collide; n past any plausible cache bound), each ending in an irregular
// word of the rule type asked, and checks each result against the prefix clause; g goroutines share the work.
func volume(req *inflproto.Req) *inflproto.Resp {
	resp := &inflproto.Resp{ID: req.ID}
	g := req.Goroutines
	if g < 1 {
		g = 1
	}
	type rule struct {
		f     func(string) string
		name  string
		words []string
		alone map[string]string
	}
	rules := []*rule{{f: inflector.Pluralize, name: "Pluralize", words: req.PWords}, {f: inflector.Singularize, name: "Singularize", words: req.SWords}}
	for _, r := range rules {
		r.alone = map[string]string{}
		for _, w := range r.words {
			r.alone[w] = r.f(w)
		}
	}
	if req.RaiseProcs > 1 {
		// the inflector's tables were built during package init, under the GOMAXPROCS of that moment
		runtime.GOMAXPROCS(runtime.GOMAXPROCS(0) * req.RaiseProcs)
	}
	giantFirst := map[string]string{}
	if req.GiantKiB > 0 {
		// very long inputs: the same clause, and the same answer when asked again
		func() {
			defer func() {
				if r := recover(); r != nil {
					resp.Mismatches = append(resp.Mismatches, fmt.Sprintf("panic: %v (input of %d KiB)", r, req.GiantKiB))
				}
			}()
			pre := strings.Repeat("lorem ipsum dolor sit amet ", req.GiantKiB<<10/27+1)
			for _, r := range rules {
				// a regular last word walks the whole rule chain: remembered now, asked again at the very end
				giantFirst[r.name] = r.f(pre + "thing")
				resp.Checked++
			}
			for _, r := range rules {
				w := r.words[0]
				for k := 0; k < 2; k++ {
					if got := r.f(pre + w); got != pre+r.alone[w] {
						resp.Mismatches = append(resp.Mismatches, fmt.Sprintf("%s(<%d KiB of text> + %q), call %d = ...%q, want ...%q", r.name, req.GiantKiB, w, k+1, tail(got, 24), r.alone[w]))
					}
					resp.Checked++
				}
			}
		}()
	}
	var mu sync.Mutex
	report := func(format string, args ...any) {
		mu.Lock()
		if len(resp.Mismatches) < 5 {
			resp.Mismatches = append(resp.Mismatches, fmt.Sprintf(format, args...))
		}
		mu.Unlock()
	}
	var wg sync.WaitGroup
	for k := 0; k < g; k++ {
		wg.Add(1)
		go func(k int) {
			defer wg.Done()
			defer func() {
				if r := recover(); r != nil {
					report("panic: %v", r)
				}
			}()
			checked := 0
			for i := k; i < req.N; i += g {
				for _, r := range rules {
					w := r.words[i%len(r.words)]
					in := inflproto.VolumeInput(req.Tag, i, w)
					want := in[:len(in)-len(w)] + r.alone[w]
					if got := r.f(in); got != want {
						report("%s(%q) = %q, want %q", r.name, in, got, want)
					}
					simsync.ClockTick()
					checked++
					if i%97 == 0 && i > 0 {
						// an earlier input again: the same answer as the first time
						j := i / 2
						w2 := r.words[j%len(r.words)]
						in2 := inflproto.VolumeInput(req.Tag, j, w2)
						if got := r.f(in2); got != in2[:len(in2)-len(w2)]+r.alone[w2] {
							report("asked again: %s(%q) = %q", r.name, in2, got)
						}
						checked++
					}
				}
			}
			mu.Lock()
			resp.Checked += checked
			mu.Unlock()
		}(k)
	}
	wg.Wait()
	if req.GiantKiB > 0 && len(giantFirst) > 0 {
		func() {
			defer func() {
				if r := recover(); r != nil {
					resp.Mismatches = append(resp.Mismatches, fmt.Sprintf("panic: %v (input of %d KiB)", r, req.GiantKiB))
				}
			}()
			pre := strings.Repeat("lorem ipsum dolor sit amet ", req.GiantKiB<<10/27+1)
			for _, r := range rules {
				if got := r.f(pre + "thing"); got != giantFirst[r.name] {
					resp.Mismatches = append(resp.Mismatches, fmt.Sprintf("%s(<%d KiB of text> + \"thing\") = ...%q at the start of the process and ...%q at its end", r.name, req.GiantKiB, tail(giantFirst[r.name], 12), tail(got, 12)))
				}
				resp.Checked++
			}
		}()
	}
	return resp
}

func tail(s string, n int) string {
	if len(s) > n {
		return s[len(s)-n:]
	}
	return s
}

func splitmix(x *uint64) uint64 {
	*x += 0x9e3779b97f4a7c15
	z := *x
	z = (z ^ (z >> 30)) * 0xbf58476d1ce4e5b9
	z = (z ^ (z >> 27)) * 0x94d049bb133111eb
	return z ^ (z >> 31)
}

func serve(req *inflproto.Req) *inflproto.Resp {
	resp := &inflproto.Resp{ID: req.ID}
	simsync.ClockOn()
	simsync.ClockAdvance(time.Duration(req.ClockJumpMS) * time.Millisecond)
	simsync.ClockStep(time.Duration(req.ClockStepUS) * time.Microsecond)
	switch req.Mode {
	case "volume":
		return volume(req)
	case "seq":
		for _, c := range req.Calls {
			resp.Seq = append(resp.Seq, call(c))
			simsync.ClockTick()
		}
	case "sched":
		results := make([][]inflproto.Result, len(req.Clients))
		var sched *simsync.Sched
		stepNow := func() int {
			if sched == nil {
				return 0
			}
			return len(sched.Steps)
		}
		var clients []func()
		for ci := range req.Clients {
			ci := ci
			results[ci] = make([]inflproto.Result, 0, len(req.Clients[ci]))
			clients = append(clients, func() {
				for _, c := range req.Clients[ci] {
					inv := stepNow()
					r := call(c)
					r.Invoke, r.Return = inv, stepNow()
					results[ci] = append(results[ci], r)
				}
			})
		}
		state := req.Seed
		pos := 0
		choose := func(runnable []int) int {
			if req.Schedule != nil {
				if pos < len(req.Schedule) {
					want := req.Schedule[pos]
					pos++
					for i, g := range runnable {
						if g == want {
							return i
						}
					}
				}
				resp.Diverged = true
				return 0
			}
			return int(splitmix(&state) % uint64(len(runnable)))
		}
		// stepNow reads sched.Steps while Run appends to it; Run only appends
		// while no client is running, so the read is ordered by the gate handoff.
		sched = simsync.RunWith(clients, choose, func(s *simsync.Sched) { sched = s })
		resp.Results = results
		for _, st := range sched.Steps {
			resp.Schedule = append(resp.Schedule, st.Gid)
			resp.Labels = append(resp.Labels, st.Label)
		}
		resp.Steps = len(sched.Steps)
		resp.Deadlock = sched.Deadlock
		if sched.Deadlock {
			resp.Blocked = sched.BlockedReasons()
		}
		resp.Probes = sched.Contended
	}
	return resp
}

func main() {
	in := os.NewFile(3, "req")
	out := os.NewFile(4, "resp")
	if in == nil || out == nil {
		os.Exit(2)
	}
	rd := bufio.NewReaderSize(in, 1<<20)
	enc := json.NewEncoder(out)
	for {
		line, err := rd.ReadBytes('\n')
		if len(line) > 0 {
			var req inflproto.Req
			if jerr := json.Unmarshal(line, &req); jerr != nil {
				fmt.Fprintln(os.Stderr, "inflworker: bad request:", jerr)
				os.Exit(2)
			}
			if eerr := enc.Encode(serve(&req)); eerr != nil {
				os.Exit(2)
			}
		}
		if err != nil {
			return
		}
	}
}
