// Package simatomic mirrors sync/atomic for code rewritten by the inflsim overlay: every operation is
// the real atomic operation, preceded by a scheduling point of the cooperative scheduler. Lock-free
// code has no other synchronisation points, so without these the scheduler could never interleave two
// goroutines inside it (and the race detector sees nothing wrong with atomics used inconsistently).
package simatomic

import (
	"sync/atomic"
	"unsafe"

	"verifharness/simsync"
)

func y(label string) { simsync.Yield(label) }

// Pointer mirrors atomic.Pointer.
type Pointer[T any] struct{ p atomic.Pointer[T] }

func (x *Pointer[T]) Load() *T                    { y("atomic.Load"); return x.p.Load() }
func (x *Pointer[T]) Store(v *T)                  { y("atomic.Store"); x.p.Store(v) }
func (x *Pointer[T]) Swap(v *T) *T                { y("atomic.Swap"); return x.p.Swap(v) }
func (x *Pointer[T]) CompareAndSwap(o, n *T) bool { y("atomic.CAS"); return x.p.CompareAndSwap(o, n) }

// Value mirrors atomic.Value.
type Value struct{ v atomic.Value }

func (x *Value) Load() any                    { y("atomic.Load"); return x.v.Load() }
func (x *Value) Store(v any)                  { y("atomic.Store"); x.v.Store(v) }
func (x *Value) Swap(v any) any               { y("atomic.Swap"); return x.v.Swap(v) }
func (x *Value) CompareAndSwap(o, n any) bool { y("atomic.CAS"); return x.v.CompareAndSwap(o, n) }

// Bool mirrors atomic.Bool.
type Bool struct{ v atomic.Bool }

func (x *Bool) Load() bool                    { y("atomic.Load"); return x.v.Load() }
func (x *Bool) Store(v bool)                  { y("atomic.Store"); x.v.Store(v) }
func (x *Bool) Swap(v bool) bool              { y("atomic.Swap"); return x.v.Swap(v) }
func (x *Bool) CompareAndSwap(o, n bool) bool { y("atomic.CAS"); return x.v.CompareAndSwap(o, n) }

// Int32 mirrors atomic.Int32.
type Int32 struct{ v atomic.Int32 }

func (x *Int32) Load() int32                    { y("atomic.Load"); return x.v.Load() }
func (x *Int32) Store(v int32)                  { y("atomic.Store"); x.v.Store(v) }
func (x *Int32) Swap(v int32) int32             { y("atomic.Swap"); return x.v.Swap(v) }
func (x *Int32) Add(d int32) int32              { y("atomic.Add"); return x.v.Add(d) }
func (x *Int32) CompareAndSwap(o, n int32) bool { y("atomic.CAS"); return x.v.CompareAndSwap(o, n) }

// Int64 mirrors atomic.Int64.
type Int64 struct{ v atomic.Int64 }

func (x *Int64) Load() int64                    { y("atomic.Load"); return x.v.Load() }
func (x *Int64) Store(v int64)                  { y("atomic.Store"); x.v.Store(v) }
func (x *Int64) Swap(v int64) int64             { y("atomic.Swap"); return x.v.Swap(v) }
func (x *Int64) Add(d int64) int64              { y("atomic.Add"); return x.v.Add(d) }
func (x *Int64) CompareAndSwap(o, n int64) bool { y("atomic.CAS"); return x.v.CompareAndSwap(o, n) }

// Uint32 mirrors atomic.Uint32.
type Uint32 struct{ v atomic.Uint32 }

func (x *Uint32) Load() uint32                    { y("atomic.Load"); return x.v.Load() }
func (x *Uint32) Store(v uint32)                  { y("atomic.Store"); x.v.Store(v) }
func (x *Uint32) Swap(v uint32) uint32            { y("atomic.Swap"); return x.v.Swap(v) }
func (x *Uint32) Add(d uint32) uint32             { y("atomic.Add"); return x.v.Add(d) }
func (x *Uint32) CompareAndSwap(o, n uint32) bool { y("atomic.CAS"); return x.v.CompareAndSwap(o, n) }

// Uint64 mirrors atomic.Uint64.
type Uint64 struct{ v atomic.Uint64 }

func (x *Uint64) Load() uint64                    { y("atomic.Load"); return x.v.Load() }
func (x *Uint64) Store(v uint64)                  { y("atomic.Store"); x.v.Store(v) }
func (x *Uint64) Swap(v uint64) uint64            { y("atomic.Swap"); return x.v.Swap(v) }
func (x *Uint64) Add(d uint64) uint64             { y("atomic.Add"); return x.v.Add(d) }
func (x *Uint64) CompareAndSwap(o, n uint64) bool { y("atomic.CAS"); return x.v.CompareAndSwap(o, n) }

// Uintptr mirrors atomic.Uintptr.
type Uintptr struct{ v atomic.Uintptr }

func (x *Uintptr) Load() uintptr                    { y("atomic.Load"); return x.v.Load() }
func (x *Uintptr) Store(v uintptr)                  { y("atomic.Store"); x.v.Store(v) }
func (x *Uintptr) Swap(v uintptr) uintptr           { y("atomic.Swap"); return x.v.Swap(v) }
func (x *Uintptr) Add(d uintptr) uintptr            { y("atomic.Add"); return x.v.Add(d) }
func (x *Uintptr) CompareAndSwap(o, n uintptr) bool { y("atomic.CAS"); return x.v.CompareAndSwap(o, n) }

// the function-style API

func LoadInt32(a *int32) int32                         { y("atomic.Load"); return atomic.LoadInt32(a) }
func LoadInt64(a *int64) int64                         { y("atomic.Load"); return atomic.LoadInt64(a) }
func LoadUint32(a *uint32) uint32                      { y("atomic.Load"); return atomic.LoadUint32(a) }
func LoadUint64(a *uint64) uint64                      { y("atomic.Load"); return atomic.LoadUint64(a) }
func LoadUintptr(a *uintptr) uintptr                   { y("atomic.Load"); return atomic.LoadUintptr(a) }
func LoadPointer(a *unsafe.Pointer) unsafe.Pointer     { y("atomic.Load"); return atomic.LoadPointer(a) }
func StoreInt32(a *int32, v int32)                     { y("atomic.Store"); atomic.StoreInt32(a, v) }
func StoreInt64(a *int64, v int64)                     { y("atomic.Store"); atomic.StoreInt64(a, v) }
func StoreUint32(a *uint32, v uint32)                  { y("atomic.Store"); atomic.StoreUint32(a, v) }
func StoreUint64(a *uint64, v uint64)                  { y("atomic.Store"); atomic.StoreUint64(a, v) }
func StoreUintptr(a *uintptr, v uintptr)               { y("atomic.Store"); atomic.StoreUintptr(a, v) }
func StorePointer(a *unsafe.Pointer, v unsafe.Pointer) { y("atomic.Store"); atomic.StorePointer(a, v) }
func AddInt32(a *int32, d int32) int32                 { y("atomic.Add"); return atomic.AddInt32(a, d) }
func AddInt64(a *int64, d int64) int64                 { y("atomic.Add"); return atomic.AddInt64(a, d) }
func AddUint32(a *uint32, d uint32) uint32             { y("atomic.Add"); return atomic.AddUint32(a, d) }
func AddUint64(a *uint64, d uint64) uint64             { y("atomic.Add"); return atomic.AddUint64(a, d) }
func AddUintptr(a *uintptr, d uintptr) uintptr         { y("atomic.Add"); return atomic.AddUintptr(a, d) }
func SwapInt32(a *int32, v int32) int32                { y("atomic.Swap"); return atomic.SwapInt32(a, v) }
func SwapInt64(a *int64, v int64) int64                { y("atomic.Swap"); return atomic.SwapInt64(a, v) }
func SwapUint32(a *uint32, v uint32) uint32            { y("atomic.Swap"); return atomic.SwapUint32(a, v) }
func SwapUint64(a *uint64, v uint64) uint64            { y("atomic.Swap"); return atomic.SwapUint64(a, v) }
func SwapPointer(a *unsafe.Pointer, v unsafe.Pointer) unsafe.Pointer {
	y("atomic.Swap")
	return atomic.SwapPointer(a, v)
}
func CompareAndSwapInt32(a *int32, o, n int32) bool {
	y("atomic.CAS")
	return atomic.CompareAndSwapInt32(a, o, n)
}
func CompareAndSwapInt64(a *int64, o, n int64) bool {
	y("atomic.CAS")
	return atomic.CompareAndSwapInt64(a, o, n)
}
func CompareAndSwapUint32(a *uint32, o, n uint32) bool {
	y("atomic.CAS")
	return atomic.CompareAndSwapUint32(a, o, n)
}
func CompareAndSwapUint64(a *uint64, o, n uint64) bool {
	y("atomic.CAS")
	return atomic.CompareAndSwapUint64(a, o, n)
}
func CompareAndSwapPointer(a *unsafe.Pointer, o, n unsafe.Pointer) bool {
	y("atomic.CAS")
	return atomic.CompareAndSwapPointer(a, o, n)
}
