package sim

import (
	"bytes"
	"crypto/sha256"
	"encoding/json"
	"fmt"
	"os"
	"os/exec"
	"strings"

	"verifharness/inflproto"
	"verifharness/wk"
)

// InflCall is one call; when Word is set the argument is Prefix+Word with
// Prefix ending in an ASCII word boundary, and the prefix clause (I4) applies.
type InflCall struct {
	Op     string `json:"op"` // "P" Pluralize | "S" Singularize
	Arg    string `json:"arg"`
	Hex    bool   `json:"hex,omitempty"` // Arg is hex-encoded (not valid UTF-8)
	Prefix string `json:"prefix,omitempty"`
	Word   string `json:"word,omitempty"`
}

// InflHistory is one concurrent history: per client goroutine a list of calls,
// and the schedule (seed for exploration, explicit goroutine ids for replay).
type InflHistory struct {
	Clients  [][]InflCall `json:"clients"`
	Seed     uint64       `json:"seed"`
	Schedule []int        `json:"schedule,omitempty"`
	// the simulated clock: time that passes before the history starts, and per scheduling step
	ClockJumpMS int64 `json:"clock_jump_ms,omitempty"`
	ClockStepUS int64 `json:"clock_step_us,omitempty"`
}

// InflCase is a batch of histories executed in order in ONE fresh process
// (the cache persists between them: call-history independence, I3).
type InflCase struct {
	Histories []InflHistory `json:"histories"`
	// Volume: instead of histories, N distinct equal-length inputs per word in one process (Goroutines
	// of them concurrently in the -race binary when Race is set).
	Volume     int    `json:"volume,omitempty"`
	VolumeTag  string `json:"volume_tag,omitempty"`
	Goroutines int    `json:"goroutines,omitempty"`
	RaiseProcs int    `json:"raise_procs,omitempty"`
	GiantKiB   int    `json:"giant_kib,omitempty"`
	// Race: run with real goroutines under the race detector instead of the
	// cooperative scheduler (not deterministic; Reps repetitions).
	Race bool `json:"race,omitempty"`
	Reps int  `json:"reps,omitempty"`
}

// English irregular nouns (singular / plural) and uninflected words: workload
// for C20. The oracle never uses the pairing, only the metamorphic relation
// f(prefix+w) == prefix+f(w) and agreement with a sequential reference run.
var irregularSingular = []string{"atlas", "beef", "brother", "cafe", "child", "cookie", "corpus", "cow", "ganglion", "genie", "genus",
	"graffito", "hoof", "loaf", "man", "money", "mongoose", "move", "mythos", "niche", "numen", "occiput", "octopus", "opus", "ox",
	"penis", "person", "sex", "soliloquy", "testis", "trilby", "turf", "potato", "hero", "tooth", "goose", "foot"}
var irregularPlural = []string{"foes", "waves", "curves", "atlases", "beefs", "brothers", "cafes", "children", "cookies", "corpuses", "cows",
	"ganglions", "genies", "genera", "graffiti", "hoofs", "loaves", "men", "monies", "mongooses", "moves", "mythoi", "niches", "numina",
	"occiputs", "octopuses", "opuses", "oxen", "penises", "people", "sexes", "soliloquies", "testes", "trilbys", "turfs", "potatoes",
	"heroes", "teeth", "geese", "feet"}
var uninflectedWords = []string{"bison", "bream", "breeches", "carp", "chassis", "cod", "corps", "debris", "diabetes", "elk", "equipment",
	"gallows", "graffiti", "headquarters", "information", "innings", "mackerel", "media", "moose", "news", "pliers", "rice", "salmon",
	"scissors", "sea-bass", "sea bass", "series", "species", "swine", "trout", "tuna", "whiting", "sheep", "deer", "fish", "Chinese", "measles", "people", "class"}
var regularWords = []string{"status", "quiz", "mouse", "matrix", "index", "box", "church", "city", "hive", "wife", "leaf", "analysis",
	"datum", "buffalo", "tomato", "virus", "alias", "axis", "bus", "cat", "a", "s", "", "ss", "ID", "user_id", "userName", "Query", "menus",
	"movies", "shoes", "drives", "news", "bureaus", "octopi", "caches", "addresses", "statuses"}
var boundaries = []string{" ", "-", ".", "/", ":", "+", "--", " - ", "\n", "\t", "\r\n", "!", "(", "'"}
var prefixes = []string{"old", "big", "a.b", "x", "New York", "well known", "42", "Ünï", "a-b", "UPPER", "line1\nline2", "tab\tbed", "",
	// lower-casing changes the byte length of these (İ, the Kelvin sign, Ⱥ, ẞ)
	"İstanbul", "ȺȺȺȺȺȺȺȺȺȺ", "5 K", "STRAẞE", "İİİ"}

func caseVariant(r *Rng, w string) string {
	switch r.Intn(5) {
	case 0:
		return strings.ToUpper(w)
	case 1:
		if w == "" {
			return w
		}
		return strings.ToUpper(w[:1]) + w[1:]
	}
	return w
}

// drawInflCall draws one call; token is a fresh string that makes the argument
// new to the cache (so the miss path runs under contention).
func drawInflCall(r *Rng, token string) InflCall {
	op := Pick(r, []string{"P", "S"})
	irr := irregularSingular
	if op == "S" {
		irr = irregularPlural
	}
	switch r.Intn(11) {
	case 0, 1, 2, 3:
		// prefix + boundary + irregular word: the prefix clause
		w := caseVariant(r, Pick(r, irr))
		p := Pick(r, prefixes)
		if r.P(0.7) {
			p = token + p
		}
		p += Pick(r, boundaries)
		return InflCall{Op: op, Arg: p + w, Prefix: p, Word: w}
	case 4:
		return InflCall{Op: op, Arg: caseVariant(r, Pick(r, irr))}
	case 5:
		w := caseVariant(r, Pick(r, uninflectedWords))
		if r.P(0.5) {
			w = token + w
		}
		return InflCall{Op: op, Arg: w}
	case 6:
		// non-ASCII first rune, odd strings
		w := inflproto.Wire(op, Pick(r, []string{"émove", "Ñandú", "日本", "ß", "\xff\xfe", "ox\xc3", " ", "-", "é", "ox\n", "\tman", "person ",
			// runes that case-fold to ASCII letters: long s (U+017F) and the Kelvin sign (U+212A) match (?i)s and (?i)k
			"perſon", "old-perſon", "ſex", "cooKie", "big cooKies", "ſeries", "Kiſs", "oxen\u0130"})+Pick(r, []string{"", token}))
		return InflCall{Op: op, Arg: w.Arg, Hex: w.Hex}
	case 7:
		return InflCall{Op: op, Arg: token + caseVariant(r, Pick(r, regularWords))}
	case 8:
		return InflCall{Op: op, Arg: caseVariant(r, Pick(r, regularWords))}
	case 9:
		// an inflected form fed back in: asked alongside the form it derives from
		pairs := [][2]string{{"first peoples", "first people"}, {"Gary-numan", "Gary-numen"}, {"radius", "radii"}, {"old-men", "old-man"},
			{"status", "statuses"}, {"big oxen", "big ox"}, {"the children", "the child"}, {"menus", "menu"}, {"x-matrices", "x-matrix"}}
		pr := Pick(r, pairs)
		return InflCall{Op: op, Arg: pr[r.Intn(2)]}
	default:
		// same string in both rule types / differing only in case
		w := Pick(r, irr)
		return InflCall{Op: Pick(r, []string{"P", "S"}), Arg: token + "-" + caseVariant(r, w), Prefix: token + "-", Word: ""}
	}
}

// DrawInflHistory draws one history: 2-4 clients, 2-6 calls each; some calls
// are shared between clients so that several goroutines miss on one fresh key.
func DrawInflHistory(r *Rng, id string) InflHistory {
	h := InflHistory{Seed: r.U64()}
	nClients := r.Range(2, 4)
	var shared []InflCall
	for k := r.Range(1, 3); k > 0; k-- {
		shared = append(shared, drawInflCall(r, fmt.Sprintf("t%s%d", id, k)))
	}
	for c := 0; c < nClients; c++ {
		var calls []InflCall
		for k := r.Range(2, 6); k > 0; k-- {
			if r.P(0.5) {
				calls = append(calls, Pick(r, shared))
			} else {
				calls = append(calls, drawInflCall(r, fmt.Sprintf("u%s%d%d", id, c, k)))
			}
		}
		h.Clients = append(h.Clients, calls)
	}
	// the process has been idle for a while before this history (minutes, hours), and steps take time
	// (microseconds, or - a stalled or throttled process - seconds)
	h.ClockJumpMS = Pick(r, []int64{0, 0, 0, 250, 61_000, 61_000, 3_600_000})
	h.ClockStepUS = Pick(r, []int64{0, 1, 1, 50, 1_000, 2_000_000, 30_000_000})
	return h
}

func startInfl(env *Env, bin string) (*wk.Worker, error) {
	w, err := wk.Start(bin, wk.Env(env.GoRoot, env.GoMaxProcs))
	if err != nil {
		return nil, infra("start inflworker: %v", err)
	}
	return w, nil
}

func inflDo(env *Env, w *wk.Worker, req *inflproto.Req) (*inflproto.Resp, error) {
	data, _ := json.Marshal(req)
	line, err := w.DoRaw(data, env.Timeout)
	if err != nil {
		return nil, infra("inflworker: %v", err)
	}
	var resp inflproto.Resp
	if err := json.Unmarshal(line, &resp); err != nil {
		return nil, infra("inflworker response: %v", err)
	}
	return &resp, nil
}

type refKey struct{ op, arg string }

func (c InflCall) raw() string { return inflproto.Call{Op: c.Op, Arg: c.Arg, Hex: c.Hex}.Raw() }

// executeInfl runs a batch of histories in a fresh scheduled worker and checks
// I1-I4 against a sequential reference computed in another fresh process.
func executeInfl(env *Env, sc *Scenario) ([]Violation, string, error) {
	ic := sc.Infl
	if ic == nil {
		return nil, "", infra("infl scenario without case")
	}
	if ic.Volume > 0 {
		v, err := executeInflVolume(env, sc)
		return v, "race-leg-not-deterministic", err
	}
	if ic.Race {
		v, err := executeInflRace(env, sc)
		return v, "race-leg-not-deterministic", err
	}
	dig := sha256.New()
	var viol []Violation
	add := func(oracle, class, detail string, hi int, facts map[string]string) {
		viol = append(viol, Violation{Property: "C20", Oracle: oracle, Class: class, Detail: detail, Step: hi, Facts: facts})
	}

	// The sequential reference. Purity means the answer for an input does not depend on what the
	// process was asked before, so the reference is computed twice, in two fresh processes that see
	// every distinct (op, argument) exactly once but in opposite orders; the two must agree (I3).
	// Arguments marked Derived stand for "the result of an earlier call" (an inflected form fed back
	// in): in the reversed pass they are asked before the calls that produce them.
	var refCalls []inflproto.Call
	seen := map[refKey]int{}
	need := func(op, arg string) {
		k := refKey{op, arg}
		if _, ok := seen[k]; !ok {
			seen[k] = len(refCalls)
			refCalls = append(refCalls, inflproto.Wire(op, arg))
		}
	}
	for _, h := range ic.Histories {
		for _, cl := range h.Clients {
			for _, c := range cl {
				need(c.Op, c.raw())
				if c.Word != "" {
					need(c.Op, c.Word)
				}
			}
		}
	}
	seqRun := func(calls []inflproto.Call) (*inflproto.Resp, error) {
		rw, err := startInfl(env, env.InflBin)
		if err != nil {
			return nil, err
		}
		defer rw.Close()
		return inflDo(env, rw, &inflproto.Req{Mode: "seq", Calls: calls})
	}
	refResp, err := seqRun(refCalls)
	if err != nil {
		return nil, "", err
	}
	reversed := make([]inflproto.Call, len(refCalls))
	for i, c := range refCalls {
		reversed[len(refCalls)-1-i] = c
	}
	revResp, err := seqRun(reversed)
	if err != nil {
		return nil, "", err
	}
	ref := func(op, arg string) inflproto.Result { return refResp.Seq[seen[refKey{op, arg}]] }
	for i, c := range refCalls {
		fwd, rev := refResp.Seq[i], revResp.Seq[len(refCalls)-1-i]
		if p := fwd.Panic; p != "" {
			add("I1", "panic", fmt.Sprintf("sequential %s(%q) panics: %s", c.Op, c.Raw(), firstLine(p)), -1, map[string]string{"arg": c.Raw()})
		} else if rev.Panic == "" && fwd.Value() != rev.Value() {
			add("I3", "result-depends-on-call-history", fmt.Sprintf("%s(%q) = %q in one fresh sequential process and %q in another that made the same calls in the opposite order",
				c.Op, c.Raw(), fwd.Value(), rev.Value()), -1, map[string]string{"arg": c.Raw()})
		}
	}

	w, err := startInfl(env, env.InflBin)
	if err != nil {
		return nil, "", err
	}
	defer w.Close()
	for hi, h := range ic.Histories {
		req := &inflproto.Req{Mode: "sched", Seed: h.Seed, Schedule: h.Schedule, ClockJumpMS: h.ClockJumpMS, ClockStepUS: h.ClockStepUS}
		for _, cl := range h.Clients {
			var calls []inflproto.Call
			for _, c := range cl {
				calls = append(calls, inflproto.Call{Op: c.Op, Arg: c.Arg, Hex: c.Hex})
			}
			req.Clients = append(req.Clients, calls)
		}
		resp, err := inflDo(env, w, req)
		if err != nil {
			return nil, "", err
		}
		fmt.Fprintf(dig, "h%d %v %v %v\n", hi, resp.Schedule, resp.Labels, resp.Deadlock)
		for _, cl := range resp.Results {
			for _, r := range cl {
				fmt.Fprintf(dig, "%q %v %d %d\n", r.Ret, r.Panic != "", r.Invoke, r.Return)
			}
		}
		env.Stats.Add("infl-histories", 1)
		env.Stats.Add("infl-steps", int64(resp.Steps))
		for k, n := range resp.Probes {
			env.Stats.Add("probe/"+k, int64(n))
		}
		env.Stats.TraceInts(resp.Schedule)
		if resp.Deadlock {
			add("I1", "deadlock", fmt.Sprintf("history %d: no goroutine can run, blocked: %v", hi, resp.Blocked), hi, nil)
			continue
		}
		for ci, cl := range h.Clients {
			if len(resp.Results[ci]) != len(cl) {
				add("I1", "call-did-not-return", fmt.Sprintf("history %d client %d: %d of %d calls returned", hi, ci, len(resp.Results[ci]), len(cl)), hi, nil)
				continue
			}
			for k, c := range cl {
				got := resp.Results[ci][k]
				want := ref(c.Op, c.raw())
				switch {
				case got.Panic != "":
					add("I1", "panic", fmt.Sprintf("history %d: %s(%q) panics: %s", hi, c.Op, c.raw(), firstLine(got.Panic)), hi, map[string]string{"arg": c.raw()})
				case want.Panic == "" && got.Value() != want.Value():
					add("I2", "result-differs-from-sequential-reference", fmt.Sprintf("history %d client %d call %d: %s(%q) = %q, sequential reference %q", hi, ci, k, c.Op, c.raw(), got.Value(), want.Value()), hi, nil)
				}
			}
		}
	}
	// I4: the prefix clause, on the reference values (input-determined)
	for _, h := range ic.Histories {
		for _, cl := range h.Clients {
			for _, c := range cl {
				if c.Word == "" {
					continue
				}
				whole, alone := ref(c.Op, c.raw()), ref(c.Op, c.Word)
				if whole.Panic != "" || alone.Panic != "" {
					continue
				}
				env.Stats.Add("probe/prefix-clause-checked", 1)
				if whole.Value() != c.Prefix+alone.Value() {
					add("I4", "prefix-not-preserved", fmt.Sprintf("%s(%q) = %q but %s(%q) = %q: want %q", c.Op, c.Arg, whole.Value(), c.Op, c.Word, alone.Value(), c.Prefix+alone.Value()), -1,
						map[string]string{"arg": c.Arg})
				}
			}
		}
	}
	return viol, fmt.Sprintf("%x", dig.Sum(nil)[:12]), nil
}

// executeInflRace: the unmodified package, real goroutines, race detector.
func executeInflRace(env *Env, sc *Scenario) ([]Violation, error) {
	ic := sc.Infl
	reps := ic.Reps
	if reps <= 0 {
		reps = 1
	}
	var input bytes.Buffer
	for rep := 0; rep < reps; rep++ {
		for _, h := range ic.Histories {
			var clients [][]inflproto.Call
			for _, cl := range h.Clients {
				var calls []inflproto.Call
				for _, c := range cl {
					arg := c.raw()
					if rep > 0 {
						arg = fmt.Sprintf("r%d", rep) + arg // fresh keys: the miss path must run again
					}
					calls = append(calls, inflproto.Wire(c.Op, arg))
				}
				clients = append(clients, calls)
			}
			line, _ := json.Marshal(clients)
			input.Write(line)
			input.WriteByte('\n')
		}
	}
	cmd := exec.Command(env.InflRace)
	cmd.Env = append(os.Environ(), "GOMAXPROCS=16", "GORACE=halt_on_error=1 exitcode=66")
	cmd.Stdin = &input
	var stdout, stderr bytes.Buffer
	cmd.Stdout, cmd.Stderr = &stdout, &stderr
	err := cmd.Run()
	env.Stats.Add("infl-histories", int64(reps*len(ic.Histories)))
	env.Stats.Add("infl-race-histories", int64(reps*len(ic.Histories)))
	if err != nil {
		if strings.Contains(stderr.String(), "DATA RACE") {
			return []Violation{{Property: "C20", Oracle: "R1", Class: "data-race", Detail: firstLine(stderr.String()) + " " + raceSummary(stderr.String())}}, nil
		}
		if strings.Contains(stderr.String(), "fatal error: concurrent map") {
			return []Violation{{Property: "C20", Oracle: "R1", Class: "concurrent-map-access", Detail: firstLine(stderr.String())}}, nil
		}
		return nil, infra("inflrace: %v: %s", err, clip(stderr.String()))
	}
	// results of the race leg are checked for panics too
	var viol []Violation
	dec := json.NewDecoder(&stdout)
	for dec.More() {
		var results [][]inflproto.Result
		if err := dec.Decode(&results); err != nil {
			break
		}
		for _, cl := range results {
			for _, r := range cl {
				if r.Panic != "" {
					viol = append(viol, Violation{Property: "C20", Oracle: "I1", Class: "panic", Detail: "race leg: " + firstLine(r.Panic)})
				}
			}
		}
	}
	return viol, nil
}

// executeInflVolume: many distinct inputs in one process - what a long-lived code generator feeds the
// inflector. Sequentially in the scheduled binary (direct mode), or concurrently under the race detector.
func executeInflVolume(env *Env, sc *Scenario) ([]Violation, error) {
	ic := sc.Infl
	// irregular words of each rule type: the prefix clause of the property applies to exactly these
	req := &inflproto.Req{Mode: "volume", N: ic.Volume, Tag: ic.VolumeTag, Goroutines: ic.Goroutines, ClockStepUS: 1500, RaiseProcs: ic.RaiseProcs, GiantKiB: ic.GiantKiB,
		PWords: []string{"person", "child", "ox", "cow", "man", "move", "foot", "goose"},
		SWords: []string{"people", "children", "oxen", "cows", "men", "moves", "feet", "geese"}}
	var resp inflproto.Resp
	if ic.Race {
		data, _ := json.Marshal(req)
		cmd := exec.Command(env.InflRace, "volume")
		cmd.Env = append(os.Environ(), "GOMAXPROCS=16", "GORACE=halt_on_error=1 exitcode=66")
		cmd.Stdin = bytes.NewReader(data)
		var stdout, stderr bytes.Buffer
		cmd.Stdout, cmd.Stderr = &stdout, &stderr
		if err := cmd.Run(); err != nil {
			switch {
			case strings.Contains(stderr.String(), "DATA RACE"):
				return []Violation{{Property: "C20", Oracle: "R1", Class: "data-race", Detail: "volume run: " + raceSummary(stderr.String())}}, nil
			case strings.Contains(stderr.String(), "fatal error: concurrent map"):
				return []Violation{{Property: "C20", Oracle: "R1", Class: "concurrent-map-access", Detail: "volume run: " + panicLine(stderr.String())}}, nil
			case strings.Contains(stderr.String(), "fatal error:") || strings.Contains(stderr.String(), "panic:"):
				return []Violation{{Property: "C20", Oracle: "I1", Class: "panic", Detail: "volume run: " + panicLine(stderr.String())}}, nil
			}
			return nil, infra("inflrace volume: %v: %s", err, clip(stderr.String()))
		}
		if err := json.Unmarshal(stdout.Bytes(), &resp); err != nil {
			return nil, infra("inflrace volume: %v", err)
		}
	} else {
		w, err := startInfl(env, env.InflBin)
		if err != nil {
			return nil, err
		}
		r, err := inflDo(env, w, req)
		w.Close()
		if err != nil {
			return nil, err
		}
		resp = *r
	}
	env.Stats.Add("infl-volume-calls", int64(resp.Checked))
	env.Stats.Add("infl-histories", 1)
	var viol []Violation
	for _, mm := range resp.Mismatches {
		class := "result-wrong-in-long-lived-process"
		if strings.HasPrefix(mm, "panic:") {
			class = "panic"
		}
		viol = append(viol, Violation{Property: "C20", Oracle: "I3", Class: class, Detail: fmt.Sprintf("after up to %d distinct inputs in one process: %s", ic.Volume, mm)})
		break
	}
	return viol, nil
}

func raceSummary(s string) string {
	var out []string
	for _, l := range strings.Split(s, "\n") {
		l = strings.TrimSpace(l)
		if strings.Contains(l, "octohelm/gengo/") && strings.HasSuffix(l, "()") && len(out) < 5 {
			out = append(out, l)
		}
	}
	return strings.Join(out, " | ")
}

// SimC20 is one simulation: a batch of histories under the cooperative
// scheduler; every 8th simulation additionally feeds its histories to the
// race-detector leg.
func SimC20(c *CheckCtx, i int, r *Rng) error {
	n := 12
	ic := &InflCase{}
	for k := 0; k < n; k++ {
		ic.Histories = append(ic.Histories, DrawInflHistory(r, fmt.Sprintf("%d_%d_", i, k)))
	}
	sc := &Scenario{Kind: "infl", Infl: ic}
	if _, err := c.RunScenario(sc, i); err != nil {
		return err
	}
	for _, h := range ic.Histories {
		shape := fmt.Sprintf("%d clients", len(h.Clients))
		for _, cl := range h.Clients {
			shape += fmt.Sprintf("/%d", len(cl))
		}
		c.Env.Stats.Fingerprint(fmt.Sprintf("%s/%x", shape, h.Seed%97))
	}
	c.Env.Stats.Sample(map[string]any{"sim": i, "history": ic.Histories[0]}, 3)
	if i%8 == 0 {
		race := &Scenario{Kind: "infl", Infl: &InflCase{Histories: ic.Histories, Race: true, Reps: 8}}
		if _, err := c.RunScenario(race, i); err != nil {
			return err
		}
	}
	// the volume legs: a process that has seen very many distinct names
	thorough := c.Tier == "thorough"
	switch {
	case i == 3:
		n := map[bool]int{false: 150000, true: 700000}[thorough]
		if _, err := c.RunScenario(&Scenario{Kind: "infl", Infl: &InflCase{Volume: n, VolumeTag: fmt.Sprintf("v%d", c.Seed%10), RaiseProcs: 4, GiantKiB: map[bool]int{false: 400, true: 1500}[thorough]}}, i); err != nil {
			return err
		}
	case i == 5:
		n := map[bool]int{false: 40000, true: 250000}[thorough]
		if _, err := c.RunScenario(&Scenario{Kind: "infl", Infl: &InflCase{Volume: n, VolumeTag: fmt.Sprintf("r%d", c.Seed%10), Race: true, Goroutines: 8}}, i); err != nil {
			return err
		}
	}
	return nil
}
