package sim

// ExecuteInfl runs one inflector history (C20). Implemented in infl_exec.go.
func ExecuteInfl(env *Env, sc *Scenario) ([]Violation, error) {
	return executeInfl(env, sc)
}
