package sim

import (
	"encoding/json"
	"strings"
	"time"

	"verifharness/proto"
)

func cloneScenario(sc *Scenario) *Scenario {
	data, _ := json.Marshal(sc)
	var out Scenario
	_ = json.Unmarshal(data, &out)
	return &out
}

// allRuns visits every RunOp of the scenario.
func allRuns(sc *Scenario, f func(r *RunOp)) {
	for i := range sc.Setup {
		if sc.Setup[i].Run != nil {
			f(sc.Setup[i].Run)
		}
	}
	for vi := range sc.Variants {
		for i := range sc.Variants[vi].Ops {
			if sc.Variants[vi].Ops[i].Run != nil {
				f(sc.Variants[vi].Ops[i].Run)
			}
		}
	}
}

// candidates enumerates single-step reductions of sc. Each returns a reduced
// copy or nil when not applicable.
func candidates(sc *Scenario) []func() *Scenario {
	var cs []func() *Scenario
	add := func(f func(c *Scenario) bool) {
		cs = append(cs, func() *Scenario {
			c := cloneScenario(sc)
			if !f(c) || !moduleValid(c.Module) {
				return nil
			}
			return c
		})
	}
	// inflector batches: histories, clients, calls
	if sc.Infl != nil {
		ic := sc.Infl
		if len(ic.Histories) > 1 {
			// halves first, then single histories
			half := len(ic.Histories) / 2
			add(func(c *Scenario) bool { c.Infl.Histories = c.Infl.Histories[:half]; return true })
			add(func(c *Scenario) bool { c.Infl.Histories = c.Infl.Histories[half:]; return true })
			for hi := len(ic.Histories) - 1; hi >= 0; hi-- {
				hi := hi
				add(func(c *Scenario) bool {
					c.Infl.Histories = append(c.Infl.Histories[:hi], c.Infl.Histories[hi+1:]...)
					return true
				})
			}
		}
		for hi, h := range ic.Histories {
			hi := hi
			if len(h.Clients) > 1 {
				for ci := range h.Clients {
					ci := ci
					add(func(c *Scenario) bool {
						hh := &c.Infl.Histories[hi]
						hh.Clients = append(hh.Clients[:ci], hh.Clients[ci+1:]...)
						hh.Schedule = nil
						return true
					})
				}
			}
			for ci, cl := range h.Clients {
				ci := ci
				if len(cl) <= 1 {
					continue
				}
				for k := range cl {
					k := k
					add(func(c *Scenario) bool {
						hh := &c.Infl.Histories[hi]
						hh.Clients[ci] = append(hh.Clients[ci][:k], hh.Clients[ci][k+1:]...)
						hh.Schedule = nil
						return true
					})
				}
			}
		}
	}
	// variants (keep variant 0, the comparison base)
	minVariants, firstDroppable := 2, 1
	if sc.Kind == "history" {
		minVariants, firstDroppable = 1, 0 // independent histories sharing a setup
	}
	if len(sc.Variants) > minVariants {
		for vi := len(sc.Variants) - 1; vi >= firstDroppable; vi-- {
			vi := vi
			add(func(c *Scenario) bool {
				c.Variants = append(c.Variants[:vi], c.Variants[vi+1:]...)
				return true
			})
		}
	}
	// ops
	for i := len(sc.Setup) - 1; i >= 0; i-- {
		i := i
		add(func(c *Scenario) bool { c.Setup = append(c.Setup[:i], c.Setup[i+1:]...); return true })
	}
	for vi := range sc.Variants {
		if sc.Kind == "compare-recovery" {
			break // every variant is "victim run, then recovery": without the recovery the comparison is void
		}
		for i := len(sc.Variants[vi].Ops) - 1; i >= 0; i-- {
			vi, i := vi, i
			if len(sc.Variants[vi].Ops) <= 1 {
				continue
			}
			add(func(c *Scenario) bool {
				c.Variants[vi].Ops = append(c.Variants[vi].Ops[:i], c.Variants[vi].Ops[i+1:]...)
				return true
			})
		}
	}
	if sc.Module != nil {
		// packages nobody imports (not for compare-alone, whose variant names carry indices)
		if sc.Kind != "compare-alone" && len(sc.Module.Pkgs) > 1 {
			for pi := len(sc.Module.Pkgs) - 1; pi >= 0; pi-- {
				pi := pi
				add(func(c *Scenario) bool { return dropPkg(c, pi) })
			}
		}
		// pre-existing files
		for i := len(sc.Module.Pre) - 1; i >= 0; i-- {
			i := i
			add(func(c *Scenario) bool { c.Module.Pre = append(c.Module.Pre[:i], c.Module.Pre[i+1:]...); return true })
		}
		for pi, p := range sc.Module.Pkgs {
			pi := pi
			if len(p.DocTags) > 0 {
				add(func(c *Scenario) bool { c.Module.Pkgs[pi].DocTags = nil; return true })
			}
			if len(p.Std) > 0 {
				add(func(c *Scenario) bool { c.Module.Pkgs[pi].Std = nil; return true })
			}
			for fi, f := range p.Files {
				fi := fi
				for di := len(f.Decls) - 1; di >= 0; di-- {
					di := di
					d := f.Decls[di]
					if d.Name == p.Anchor {
						if len(d.Tags) > 0 {
							add(func(c *Scenario) bool { c.Module.Pkgs[pi].Files[fi].Decls[di].Tags = nil; return true })
						}
						continue
					}
					add(func(c *Scenario) bool {
						fl := c.Module.Pkgs[pi].Files[fi]
						fl.Decls = append(fl.Decls[:di], fl.Decls[di+1:]...)
						return true
					})
					if len(d.Tags) > 0 {
						add(func(c *Scenario) bool { c.Module.Pkgs[pi].Files[fi].Decls[di].Tags = nil; return true })
					}
					if d.Kind == "grouped" && len(d.Group) > 1 {
						for gi := range d.Group {
							gi := gi
							add(func(c *Scenario) bool {
								g := c.Module.Pkgs[pi].Files[fi].Decls[di]
								g.Group = append(g.Group[:gi], g.Group[gi+1:]...)
								return true
							})
						}
					}
				}
			}
		}
	}
	// generators, rules, schedules, faults, globals
	gens := map[string]bool{}
	allRuns(sc, func(r *RunOp) {
		for _, g := range r.Gens {
			if g.Impl != "probe" {
				gens[g.Name] = true
			}
		}
	})
	for _, name := range sortedKeys(gens) {
		name := name
		add(func(c *Scenario) bool {
			allRuns(c, func(r *RunOp) {
				var keep []proto.GenScript
				for _, g := range r.Gens {
					if g.Name != name {
						keep = append(keep, g)
					}
				}
				r.Gens = keep
			})
			return true
		})
		// empty all rules of one generator but one at a time is too slow: halve
		add(func(c *Scenario) bool {
			changed := false
			allRuns(c, func(r *RunOp) {
				for gi := range r.Gens {
					if r.Gens[gi].Name != name {
						continue
					}
					for k, rule := range r.Gens[gi].Rules {
						if len(rule.Defers) > 0 {
							rule.Defers = nil
							r.Gens[gi].Rules[k] = rule
							changed = true
						}
					}
				}
			})
			return changed
		})
		add(func(c *Scenario) bool {
			changed := false
			allRuns(c, func(r *RunOp) {
				for gi := range r.Gens {
					if r.Gens[gi].Name != name {
						continue
					}
					for k, rule := range r.Gens[gi].Rules {
						if len(rule.Render) > 1 {
							rule.Render = rule.Render[:1]
							if rule.Render[0].Ref != "" || rule.Render[0].Value != "" || rule.Render[0].State != "" {
								rule.Render = []proto.Part{{Text: "\nvar _ = 0\n"}}
							}
							r.Gens[gi].Rules[k] = rule
							changed = true
						}
					}
				}
			})
			return changed
		})
	}
	add(func(c *Scenario) bool {
		changed := false
		allRuns(c, func(r *RunOp) {
			if r.Sched.Default != "asc" && r.Sched.Default != "desc" && r.Sched.Default != "" {
				r.Sched.Default = "desc"
				changed = true
			}
			if len(r.Sched.Overrides) > 0 {
				r.Sched.Overrides = nil
				changed = true
			}
		})
		return changed
	})
	add(func(c *Scenario) bool {
		changed := false
		allRuns(c, func(r *RunOp) {
			if len(r.Args.Globals) > 0 {
				r.Args.Globals = nil
				changed = true
			}
		})
		return changed
	})
	return cs
}

// dropPkg removes package pi if nothing imports it and some entrypoint remains.
func dropPkg(c *Scenario, pi int) bool {
	m := c.Module
	for j, p := range m.Pkgs {
		if j == pi {
			continue
		}
		for _, k := range p.Imports {
			if k == pi {
				return false
			}
		}
	}
	path := m.ImportPath(pi)
	dir := m.Pkgs[pi].Dir
	// nested packages below it stay valid directories, nothing to do
	ok := true
	allRuns(c, func(r *RunOp) {
		var keep []string
		for _, e := range r.Args.Entrypoint {
			if e == path || e == "./"+dir {
				continue
			}
			keep = append(keep, e)
		}
		if len(keep) == 0 {
			ok = false
		}
		r.Args.Entrypoint = keep
		for gi := range r.Gens {
			for k := range r.Gens[gi].Rules {
				if strings.HasPrefix(k, path+" ") {
					delete(r.Gens[gi].Rules, k)
				}
			}
			for k := range r.Gens[gi].AliasRules {
				if strings.HasPrefix(k, path+" ") {
					delete(r.Gens[gi].AliasRules, k)
				}
			}
			// references into the dropped package would no longer resolve
			for k, rule := range r.Gens[gi].Rules {
				for _, part := range rule.Render {
					if strings.HasPrefix(part.Ref, path+".") {
						ok = false
					}
				}
				_ = k
			}
		}
	})
	if !ok {
		return false
	}
	// ops that touch files of the package
	for _, ops := range [][]Op{c.Setup} {
		for _, o := range ops {
			if o.Path != "" && (strings.HasPrefix(o.Path, dir+"/") && !strings.Contains(o.Path[len(dir)+1:], "/")) {
				return false
			}
		}
	}
	for _, v := range c.Variants {
		for _, o := range v.Ops {
			if o.Path != "" && (strings.HasPrefix(o.Path, dir+"/") && !strings.Contains(o.Path[len(dir)+1:], "/")) {
				return false
			}
		}
	}
	// ops that address a package by index (touch, retag)
	fix := func(ops []Op) bool {
		for i := range ops {
			if ops[i].Kind != "touch" && ops[i].Kind != "retag" {
				continue
			}
			if ops[i].K == pi {
				return false
			}
			if ops[i].K > pi {
				ops[i].K--
			}
		}
		return true
	}
	probe := cloneScenario(c)
	okOps := fix(probe.Setup)
	for vi := range probe.Variants {
		okOps = okOps && fix(probe.Variants[vi].Ops)
	}
	if !okOps {
		return false
	}
	fix(c.Setup)
	for vi := range c.Variants {
		fix(c.Variants[vi].Ops)
	}
	m.Pkgs = append(m.Pkgs[:pi], m.Pkgs[pi+1:]...)
	for _, p := range m.Pkgs {
		for k := range p.Imports {
			if p.Imports[k] > pi {
				p.Imports[k]--
			}
		}
	}
	var pre []PreFile
	for _, f := range m.Pre {
		if strings.HasPrefix(f.Path, dir+"/") && !strings.Contains(f.Path[len(dir)+1:], "/") {
			continue
		}
		pre = append(pre, f)
	}
	m.Pre = pre
	return true
}

// Minimise shrinks sc while a violation with the same key keeps firing.
func Minimise(env *Env, sc *Scenario, key string, budget time.Duration) *Scenario {
	deadline := time.Now().Add(budget)
	cur := sc
	progress := true
	for progress && time.Now().Before(deadline) {
		progress = false
		for _, mk := range candidates(cur) {
			if time.Now().After(deadline) {
				break
			}
			cand := mk()
			if cand == nil {
				continue
			}
			out, err := safeExecute(env, cand)
			env.Stats.Add("minimiser-executions", 1)
			if err != nil {
				continue
			}
			if hasKey(out.Violations, key) {
				cur = cand
				progress = true
				break // candidates refer to indices of the old scenario
			}
		}
	}
	return cur
}

// moduleValid rejects reductions that leave dangling references (an alias,
// method or shadow whose target type is gone): such modules no longer
// type-check and would make the minimised scenario misleading.
func moduleValid(m *ModuleSpec) bool {
	if m == nil {
		return true
	}
	for _, p := range m.Pkgs {
		names := map[string]bool{"int": true, "string": true, "[]byte": true}
		for _, td := range p.TypeDecls() {
			names[td.Name] = true
		}
		if !names[p.Anchor] {
			return false
		}
		strip := func(s string) string {
			if i := strings.IndexByte(s, '['); i > 0 {
				return s[:i]
			}
			return s
		}
		var visit func(d *Decl) bool
		visit = func(d *Decl) bool {
			switch d.Kind {
			case "alias", "method", "local-shadow", "typeparam-shadow":
				if !names[strip(d.Target)] {
					return false
				}
			case "grouped":
				if len(d.Group) == 0 {
					return false
				}
				for _, g := range d.Group {
					if !visit(g) {
						return false
					}
				}
			}
			return true
		}
		for _, f := range p.Files {
			for _, d := range f.Decls {
				if !visit(d) {
					return false
				}
			}
		}
	}
	return true
}

// safeExecute runs a reduction candidate; a candidate the executor cannot digest is simply rejected.
func safeExecute(env *Env, sc *Scenario) (out *Outcome, err error) {
	defer func() {
		if r := recover(); r != nil {
			out, err = nil, infra("candidate rejected: %v", r)
		}
	}()
	return ExecuteScenario(env, sc)
}
