// Package sim is the driver side of the simulator: scenario generation,
// worlds, the reference models and the oracles.
package sim

import (
	"fmt"
	"os"
	"path/filepath"
	"sort"
	"strings"
	"time"
)

// Tag is one comment tag line.
type Tag struct {
	Marker string `json:"marker"`        // "+" or "@"
	Key    string `json:"key"`           // e.g. "gengo:x" or "gengo:x:sub"
	Sep    string `json:"sep,omitempty"` // "", "=" or " "
	Val    string `json:"val,omitempty"`
	Tight  bool   `json:"tight,omitempty"` // "//+key" without the space
}

func (t Tag) Line() string {
	sp := " "
	if t.Tight {
		sp = ""
	}
	return "//" + sp + t.Marker + t.Key + t.Sep + t.Val
}

// Value is what gengo's tag parser yields for the line.
func (t Tag) Value() string {
	if t.Sep == "" {
		return ""
	}
	return t.Val
}

// Decl is one top-level declaration of a synthetic source file.
type Decl struct {
	// Kind: struct scalar mapt slice functype iface alias generic grouped
	// const func method local-shadow typeparam-shadow local-unique uses
	Kind   string   `json:"kind"`
	Name   string   `json:"name"`
	Tags   []Tag    `json:"tags,omitempty"`
	Doc    []string `json:"doc,omitempty"`
	Target string   `json:"target,omitempty"` // alias target / method receiver / shadowed name / used import alias
	Ptr    bool     `json:"ptr,omitempty"`    // pointer receiver
	Group  []*Decl  `json:"group,omitempty"`  // members of a grouped type declaration
	Fields []string `json:"fields,omitempty"` // extra struct field lines
	// Broken (scalar): declared on an identifier that does not exist ("type Users MissingUsers"): the package
	// has a type error - which gengo tolerates (it prints a warning), so that code can refer to what will
	// only exist once it has been generated - and the type is a package-level defined type all the same
	Broken bool `json:"broken,omitempty"`
	// LineBefore: "file:line" of a //line directive written (with an empty line after it) in front of the declaration
	LineBefore string `json:"line_before,omitempty"`
}

// SrcFile is one Go source file of a package.
type SrcFile struct {
	Name  string  `json:"name"`
	Decls []*Decl `json:"decls"`
	// Cgo: the file imports "C" (a small static C function in the preamble and a Go function calling it).
	// go list then hands go/packages the copy cgo writes into the build cache, whose //line directives
	// point back to this file by absolute path.
	Cgo bool `json:"cgo,omitempty"`
	// BOM: the file starts with a byte order mark; CRLF: its lines end in \r\n (both legal Go source)
	BOM  bool `json:"bom,omitempty"`
	CRLF bool `json:"crlf,omitempty"`
}

// PreFile is a file that exists before gengo runs and is not a spec'd source.
type PreFile struct {
	Path    string `json:"path"` // relative to the module root
	Content string `json:"content"`
	Symlink string `json:"symlink,omitempty"` // if set: a symlink with this target
	// Age: what the file's clock says: "" now, "old" years ago (a file parked long ago, unpacked from an
	// archive), "future" (written by a machine whose clock is ahead)
	Age string `json:"age,omitempty"`
	// ReadOnly: mode 0444 (a file from a read-only checkout or the module cache)
	ReadOnly bool `json:"read_only,omitempty"`
}

// PkgSpec is one package.
type PkgSpec struct {
	Dir     string     `json:"dir"`  // relative to the module root; "" is the root
	Name    string     `json:"name"` // package name (may differ from the directory)
	Imports []int      `json:"imports,omitempty"`
	Std     []string   `json:"std,omitempty"`
	DocTags []Tag      `json:"doc_tags,omitempty"`
	DocText []string   `json:"doc_text,omitempty"`
	Files   []*SrcFile `json:"files"`
	// DupDocTags: package-level tags repeated, with identical values, in the package doc of the second
	// file (two files agreeing on a tag leave no doubt about its effective value).
	DupDocTags []Tag  `json:"dup_doc_tags,omitempty"`
	Anchor     string `json:"anchor"` // an exported struct type other packages refer to
	InSub      bool   `json:"in_sub,omitempty"`
}

// ModuleSpec describes a synthetic module.
type ModuleSpec struct {
	ModPath string     `json:"mod_path"`
	GoVer   string     `json:"go"`
	Pkgs    []*PkgSpec `json:"pkgs"`
	Pre     []PreFile  `json:"pre,omitempty"`
	// Sub: a second module in a subdirectory, required and replaced by the main one, so that one run
	// can span two modules with different module paths and go versions.
	Sub *SubModule `json:"sub,omitempty"`
	// Workspace: the two modules are joined by a go.work file in the root instead of a replace directive
	// (the worker's go command then runs in workspace mode).
	Workspace bool `json:"workspace,omitempty"`
}

// SubModule is a locally replaced second module.
type SubModule struct {
	Dir   string `json:"dir"`
	Path  string `json:"path"`
	GoVer string `json:"go"`
}

// ModuleOf returns the module path and go version that govern package i.
func (m *ModuleSpec) ModuleOf(i int) (string, string) {
	if m.Sub != nil && m.Pkgs[i].InSub {
		return m.Sub.Path, m.Sub.GoVer
	}
	return m.ModPath, m.GoVer
}

// ImportPath of package i.
func (m *ModuleSpec) ImportPath(i int) string {
	p := m.Pkgs[i]
	if m.Sub != nil && p.InSub {
		if p.Dir == m.Sub.Dir {
			return m.Sub.Path
		}
		return m.Sub.Path + "/" + strings.TrimPrefix(p.Dir, m.Sub.Dir+"/")
	}
	if p.Dir == "" {
		return m.ModPath
	}
	return m.ModPath + "/" + p.Dir
}

// PkgByPath returns the index of the package with this import path, or -1.
func (m *ModuleSpec) PkgByPath(path string) int {
	for i := range m.Pkgs {
		if m.ImportPath(i) == path {
			return i
		}
	}
	return -1
}

// Closure returns the indices of the packages reachable from roots through
// local imports (roots included), sorted by import path.
func (m *ModuleSpec) Closure(roots []int) []int {
	seen := map[int]bool{}
	var walk func(i int)
	walk = func(i int) {
		if seen[i] {
			return
		}
		seen[i] = true
		for _, j := range m.Pkgs[i].Imports {
			walk(j)
		}
	}
	for _, r := range roots {
		walk(r)
	}
	var out []int
	for i := range seen {
		out = append(out, i)
	}
	sort.Slice(out, func(a, b int) bool { return m.ImportPath(out[a]) < m.ImportPath(out[b]) })
	return out
}

// Local returns the packages gengo treats as local for a run over the given entrypoints: the import
// closure of the entrypoints restricted to the modules the entrypoints themselves belong to.
func (m *ModuleSpec) Local(roots []int) []int {
	mods := map[string]bool{}
	for _, r := range roots {
		mp, _ := m.ModuleOf(r)
		mods[mp] = true
	}
	var out []int
	for _, i := range m.Closure(roots) {
		if mp, _ := m.ModuleOf(i); mods[mp] {
			out = append(out, i)
		}
	}
	return out
}

func docLines(d *Decl, indent string) string {
	var sb strings.Builder
	for _, l := range d.Doc {
		sb.WriteString(indent + "// " + l + "\n")
	}
	for _, t := range d.Tags {
		sb.WriteString(indent + t.Line() + "\n")
	}
	return sb.String()
}

func typeBody(d *Decl) string {
	switch d.Kind {
	case "struct":
		s := "struct {\n\tID int\n\tName string\n"
		for _, f := range d.Fields {
			s += "\t" + strings.TrimPrefix(f, "\t") + "\n"
		}
		return s + "}"
	case "scalar":
		if d.Broken {
			return "Missing" + d.Name
		}
		return "int"
	case "mapt":
		return "map[string]string"
	case "slice":
		return "[]string"
	case "functype":
		return "func(int) string"
	case "iface":
		return "interface {\n\tM() string\n}"
	case "alias":
		return "= " + d.Target
	case "generic":
		return "struct {\n\tV X\n}"
	}
	return "struct{}"
}

// Source renders one declaration.
func (d *Decl) Source() string {
	switch d.Kind {
	case "struct", "scalar", "mapt", "slice", "functype", "iface", "alias":
		return docLines(d, "") + "type " + d.Name + " " + typeBody(d) + "\n"
	case "generic":
		return docLines(d, "") + "type " + d.Name + "[X any] " + typeBody(d) + "\n"
	case "grouped":
		s := "type (\n"
		for i, g := range d.Group {
			if i > 0 {
				s += "\n"
			}
			s += docLines(g, "\t")
			body := strings.ReplaceAll(typeBody(g), "\n", "\n\t")
			if g.Kind == "generic" {
				s += "\t" + g.Name + "[X any] " + body + "\n"
			} else {
				s += "\t" + g.Name + " " + body + "\n"
			}
		}
		return s + ")\n"
	case "const":
		return docLines(d, "") + "const " + d.Name + " = 1\n"
	case "func":
		return docLines(d, "") + "func " + d.Name + "() int {\n\treturn 1\n}\n"
	case "method":
		recv := d.Target
		if d.Ptr {
			recv = "*" + recv
		}
		return docLines(d, "") + "func (v " + recv + ") " + d.Name + "() int {\n\treturn 2\n}\n"
	case "local-shadow", "local-unique":
		// a function-local type; for local-shadow its name equals a package-level type's
		return "func " + d.Name + "() any {\n\ttype " + d.Target + " struct {\n\t\tLocal bool\n\t}\n\treturn " + d.Target + "{}\n}\n"
	case "typeparam-shadow":
		return "func " + d.Name + "[" + d.Target + " any](v " + d.Target + ") " + d.Target + " {\n\treturn v\n}\n"
	case "uses":
		return "var _ " + d.Target + "\n"
	case "raw":
		// verbatim source (worlds for the real devpkg generators)
		return strings.Join(d.Fields, "\n") + "\n"
	}
	panic("unknown decl kind " + d.Kind)
}

// TypeDecl is a flattened view of a package-level type declaration.
type TypeDecl struct {
	Name  string
	Kind  string
	Tags  []Tag
	Alias bool
}

// TypeDecls lists the package-scope type declarations of p (grouped members
// flattened), which is what C06 and C13 expect gengo to see.
func (p *PkgSpec) TypeDecls() []TypeDecl {
	var out []TypeDecl
	add := func(d *Decl) {
		switch d.Kind {
		case "struct", "scalar", "mapt", "slice", "functype", "iface", "alias", "generic":
			out = append(out, TypeDecl{Name: d.Name, Kind: d.Kind, Tags: d.Tags, Alias: d.Kind == "alias"})
		}
	}
	for _, f := range p.Files {
		for _, d := range f.Decls {
			if d.Kind == "grouped" {
				for _, g := range d.Group {
					add(g)
				}
			} else {
				add(d)
			}
		}
	}
	return out
}

// HasShadow reports whether p declares a function-local type or a type
// parameter with the name of a package-level type.
func (p *PkgSpec) HasShadow() (local, typeparam bool) {
	for _, f := range p.Files {
		for _, d := range f.Decls {
			switch d.Kind {
			case "local-shadow":
				local = true
			case "typeparam-shadow":
				typeparam = true
			}
		}
	}
	return
}

// FileSource renders a source file of package p (index pi) of module m.
func (m *ModuleSpec) FileSource(pi int, f *SrcFile, first bool) string {
	p := m.Pkgs[pi]
	var sb strings.Builder
	if !first && len(p.Files) > 1 && f == p.Files[1] && len(p.DupDocTags) > 0 {
		sb.WriteString("// Package " + p.Name + " (second file).\n")
		for _, t := range p.DupDocTags {
			sb.WriteString(t.Line() + "\n")
		}
	}
	if first {
		for _, l := range p.DocText {
			sb.WriteString("// " + l + "\n")
		}
		for _, t := range p.DocTags {
			sb.WriteString(t.Line() + "\n")
		}
	}
	sb.WriteString("package " + p.Name + "\n")
	if f.Cgo {
		id := sanitize(strings.TrimSuffix(f.Name, ".go"))
		sb.WriteString("\n/*\nstatic int twice_" + id + "(int x) { return 2 * x; }\n*/\nimport \"C\"\n\n// Twice_" + id + " calls into C.\nfunc Twice_" + id + "(x int) int { return int(C.twice_" + id + "(C.int(x))) }\n")
	}
	if first && (len(p.Imports) > 0 || len(p.Std) > 0) {
		sb.WriteString("\nimport (\n")
		for _, s := range p.Std {
			sb.WriteString("\t\"" + s + "\"\n")
		}
		for k, j := range p.Imports {
			sb.WriteString(fmt.Sprintf("\tdep%d \"%s\"\n", k, m.ImportPath(j)))
		}
		sb.WriteString(")\n")
		for _, s := range p.Std {
			sb.WriteString("\nvar _ " + stdUse[s] + "\n")
		}
		for k, j := range p.Imports {
			sb.WriteString(fmt.Sprintf("\nvar _ dep%d.%s\n", k, m.Pkgs[j].Anchor))
		}
	}
	for _, d := range f.Decls {
		sb.WriteString("\n")
		if d.LineBefore != "" {
			sb.WriteString("//line " + d.LineBefore + "\n\n")
		}
		sb.WriteString(d.Source())
	}
	out := sb.String()
	if f.CRLF {
		out = strings.ReplaceAll(out, "\n", "\r\n")
	}
	if f.BOM {
		out = "\uFEFF" + out
	}
	return out
}

// stdUse: how a source file uses a std import. Loading is LoadAllSyntax, so
// every std import is parsed and type-checked with its whole closure on every
// run: container/list, container/ring and unicode cost ~0-30 ms, strings or
// time ~350 ms. The cheap ones are the default; the heavy ones are rare.
var stdUse = map[string]string{
	"container/list": "list.List",
	"container/ring": "ring.Ring",
	"unicode":        "unicode.RangeTable",
	"strings":        "strings.Builder",
	"time":           "time.Duration",
	"weak":           "weak.Pointer[int]",
}

// Files returns every file of the module as path -> content (symlinks are
// returned separately).
func (m *ModuleSpec) Files() (files map[string]string, links map[string]string) {
	files = map[string]string{}
	links = map[string]string{}
	files["go.mod"] = m.GoMod()
	if m.Sub != nil && m.Workspace {
		files["go.work"] = "go " + m.GoVer + "\n\nuse (\n\t.\n\t./" + m.Sub.Dir + "\n)\n"
	}
	if m.Sub != nil {
		files[filepath.Join(m.Sub.Dir, "go.mod")] = "module " + m.Sub.Path + "\n\ngo " + m.Sub.GoVer + "\n"
	}
	for pi, p := range m.Pkgs {
		for fi, f := range p.Files {
			files[filepath.Join(p.Dir, f.Name)] = m.FileSource(pi, f, fi == 0)
		}
	}
	for _, pf := range m.Pre {
		if pf.Symlink != "" {
			links[pf.Path] = pf.Symlink
		} else {
			files[pf.Path] = pf.Content
		}
	}
	return
}

// GoMod renders the main go.mod.
func (m *ModuleSpec) GoMod() string {
	s := "module " + m.ModPath + "\n\ngo " + m.GoVer + "\n"
	if m.Sub != nil && !m.Workspace {
		s += "\nrequire " + m.Sub.Path + " v0.0.0\n\nreplace " + m.Sub.Path + " => ./" + m.Sub.Dir + "\n"
	}
	return s
}

// Materialise writes the module below root.
func (m *ModuleSpec) Materialise(root string) error {
	files, links := m.Files()
	for rel, content := range files {
		p := filepath.Join(root, rel)
		if err := os.MkdirAll(filepath.Dir(p), 0o755); err != nil {
			return err
		}
		if err := os.WriteFile(p, []byte(content), 0o644); err != nil {
			return err
		}
	}
	for rel, target := range links {
		p := filepath.Join(root, rel)
		if err := os.MkdirAll(filepath.Dir(p), 0o755); err != nil {
			return err
		}
		if err := os.Symlink(target, p); err != nil {
			return err
		}
	}
	for k, pf := range m.Pre {
		if pf.Symlink != "" {
			continue
		}
		p := filepath.Join(root, pf.Path)
		if pf.ReadOnly {
			if err := os.Chmod(p, 0o444); err != nil {
				return err
			}
		}
		var t time.Time
		switch pf.Age {
		case "old":
			t = time.Date(2019, 5, 6, 7, 8, 9, 0, time.UTC).Add(time.Duration(k) * time.Hour)
		case "future":
			t = time.Date(2037, 5, 6, 7, 8, 9, 0, time.UTC).Add(time.Duration(k) * time.Hour)
		default:
			continue
		}
		if err := os.Chtimes(p, t, t); err != nil {
			return err
		}
	}
	return nil
}

// ---- the tag model of C06 (derived from the property text only) -------------

// effectiveTags merges globals < package doc < declaration doc, per key.
// Repeated keys at one level are kept out of the workload (rule w3), so each
// level contributes at most one value per key.
func effectiveTags(globals map[string][]string, pkg []Tag, decl []Tag) map[string]string {
	eff := map[string]string{}
	for k, v := range globals {
		eff[k] = strings.Join(v, "")
	}
	for _, t := range pkg {
		eff[t.Key] = t.Value()
	}
	for _, t := range decl {
		eff[t.Key] = t.Value()
	}
	return eff
}

// Enabled applies the rule of the property text: an effective `gengo:<name>`
// decides alone (disabled iff "false"); otherwise any `gengo:<name>:<sub>`
// enables; otherwise not enabled.
func Enabled(gen string, eff map[string]string) bool {
	if v, ok := eff["gengo:"+gen]; ok {
		return v != "false"
	}
	for k := range eff {
		if strings.HasPrefix(k, "gengo:"+gen+":") {
			return true
		}
	}
	return false
}

// EnabledTypes returns the names of the defined types and of the aliases of
// package pi that generator gen must be invoked for.
func (m *ModuleSpec) EnabledTypes(pi int, gen string, globals map[string][]string) (named, aliases []string) {
	p := m.Pkgs[pi]
	for _, td := range p.TypeDecls() {
		if !Enabled(gen, effectiveTags(globals, p.DocTags, td.Tags)) {
			continue
		}
		if td.Alias {
			aliases = append(aliases, td.Name)
		} else {
			named = append(named, td.Name)
		}
	}
	sort.Strings(named)
	sort.Strings(aliases)
	return
}

// DocLinesOf returns the documentation lines (tag lines split off) the spec gave the type named by
// "import/path.Type" - what Package.Doc must report for it.
func (m *ModuleSpec) DocLinesOf(ref string) []string {
	i := strings.LastIndex(ref, ".")
	pi := m.PkgByPath(ref[:i])
	if pi < 0 {
		return nil
	}
	var find func(ds []*Decl) []string
	find = func(ds []*Decl) []string {
		for _, d := range ds {
			if d.Kind == "grouped" {
				if l := find(d.Group); l != nil {
					return l
				}
			} else if d.Name == ref[i+1:] {
				return append([]string{}, d.Doc...)
			}
		}
		return nil
	}
	for _, f := range m.Pkgs[pi].Files {
		if l := find(f.Decls); l != nil {
			return l
		}
	}
	return nil
}
