package sim

import (
	"encoding/json"
	"os"
	"path/filepath"
	"sort"
	"strings"
	"time"

	"verifharness/instrument"
)

// WriteEvidence writes /verif/evidence/<id>.json from the run's counters.
func WriteEvidence(c *CheckCtx, level string, wall time.Duration, sites []instrument.Site, rule string, assumptions []string, components map[string]string) error {
	st := c.Env.Stats
	st.mu.Lock()
	defer st.mu.Unlock()
	faults := map[string]int64{}
	probes := map[string]int64{}
	other := map[string]int64{}
	for k, v := range st.Counters {
		switch {
		case strings.HasPrefix(k, "fault/"):
			faults[k[len("fault/"):]] = v
		case strings.HasPrefix(k, "probe/"):
			probes[k[len("probe/"):]] = v
		default:
			other[k] = v
		}
	}
	type siteRow struct {
		Site         string `json:"site"`
		Kind         string `json:"kind"`
		Visits       int64  `json:"visits"`
		OrderMatters int64  `json:"visits_with_2plus_entries"`
		Uncontrolled int64  `json:"uncontrolled"`
	}
	var siteRows []siteRow
	var uncontrolled int64
	kinds := map[string]string{}
	for _, s := range sites {
		kinds[s.ID] = s.Kind
	}
	for _, k := range sortedKeys(st.Sites) {
		a := st.Sites[k]
		siteRows = append(siteRows, siteRow{k, kinds[k], a.Visits, a.Multi, a.Uncontrolled})
		uncontrolled += a.Uncontrolled
	}
	evals := other["runs"] + other["infl-histories"]
	if evals == 0 {
		evals = c.scens.Load()
	}
	hours := wall.Hours()
	if hours <= 0 {
		hours = 1e-9
	}
	samples := st.Samples
	if len(samples) == 0 {
		samples = []any{"no case was executed"}
	}
	ev := map[string]any{
		"property_id": c.Prop,
		"tier":        c.Tier,
		"seed":        c.Seed,
		"level":       level,
		"wall_s":      wall.Seconds(),
		"violations":  other["violations"],
		"coverage": map[string]any{
			"evaluations":          evals,
			"distinct_nontrivial":  len(st.Finger),
			"rule":                 rule,
			"samples":              samples,
			"simulations":          c.sims.Load(),
			"scenarios_executed":   c.scens.Load(),
			"runs_per_hour":        int64(float64(evals) / hours),
			"simulations_per_hour": int64(float64(c.sims.Load()) / hours),
			"logical_time_events":  other["events"] + other["infl-steps"],
			"simulated_time_note":  "logical time: the number of events executed (callbacks + file-system calls, or scheduler steps). The clock seam turns events into simulated seconds for code that reads time (on this tree only the logger does: durations in log lines)",
			"faults_fired":         faults,
			"probes":               probes,
			"distinct_traces":      len(st.Traces),
			"order_sites":          siteRows,
			"sites_installed":      len(sites),
			"uncontrolled_visits":  uncontrolled,
			"counters":             other,
			"components":           components,
			"exhaustive":           false,
		},
		"assumptions": assumptions,
	}
	dir := filepath.Join(c.VerifDir, "evidence")
	if err := os.MkdirAll(dir, 0o755); err != nil {
		return err
	}
	data, err := json.MarshalIndent(ev, "", " ")
	if err != nil {
		return err
	}
	return os.WriteFile(filepath.Join(dir, c.Prop+".json"), append(data, '\n'), 0o644)
}

// OtherSummary lists violations of other properties seen on the side.
func (c *CheckCtx) OtherSummary() []string {
	c.mu.Lock()
	defer c.mu.Unlock()
	var out []string
	for k, n := range c.other {
		out = append(out, k+" x"+itoa(n))
	}
	sort.Strings(out)
	return out
}

func itoa(n int) string {
	b, _ := json.Marshal(n)
	return string(b)
}
