package sim

import (
	"fmt"
	"strings"
)

// SpecConfig is the swarm configuration a module is drawn under.
type SpecConfig struct {
	MinPkgs, MaxPkgs int
	MaxDecls         int
	GenNames         []string // generator names tags may mention
	PShadowLocal     float64
	PShadowTypeParam float64
	PLocalUnique     float64
	PAlias           float64
	PGeneric         float64
	PGrouped         float64
	PIface           float64
	PMethods         float64
	PPkgTags         float64
	PDeclTags        float64
	PNameMismatch    float64
	PNested          float64
	PRootPkg         float64
	PStd             float64
	PPre             float64 // pre-existing look-alike / foreign files
	PNamedFields     float64 // struct fields named after (and documented unlike) another type of the package
	PLineDirective   float64 // a //line directive in front of a declaration (as goyacc, ragel, templ or cgo write them)
	Base             string
	AllowFalse       bool
}

// DrawSpecConfig draws a swarm configuration.
func DrawSpecConfig(r *Rng, genNames []string, base string) SpecConfig {
	onoff := func(p float64, v float64) float64 {
		if r.P(p) {
			return v
		}
		return 0
	}
	return SpecConfig{
		MinPkgs: 1, MaxPkgs: r.Range(1, 4),
		MaxDecls:         r.Range(2, 8),
		GenNames:         genNames,
		PShadowLocal:     onoff(0.5, 0.5),
		PShadowTypeParam: onoff(0.4, 0.5),
		PLocalUnique:     onoff(0.4, 0.4),
		PAlias:           onoff(0.6, 0.25),
		PGeneric:         onoff(0.5, 0.2),
		PGrouped:         onoff(0.4, 0.3),
		PIface:           onoff(0.4, 0.15),
		PMethods:         onoff(0.6, 0.4),
		PPkgTags:         onoff(0.7, 0.6),
		PDeclTags:        onoff(0.9, 0.6),
		PNameMismatch:    onoff(0.3, 0.5),
		PNested:          onoff(0.4, 0.5),
		PRootPkg:         onoff(0.3, 0.5),
		PStd:             onoff(0.4, 0.5),
		PPre:             onoff(0.6, 0.7),
		PLineDirective:   onoff(0.25, 0.35),
		PNamedFields:     onoff(0.6, 0.6),
		Base:             base,
		AllowFalse:       true,
	}
}

var modPaths = []string{"example.com/m", "m", "github.com/a-b/c.d/v2", "example.com/deep/mod-x"}
var goVers = []string{"1.18", "1.21", "1.22.0", "1.23", "1.24", "1.24.2", "1.21rc1"}

// directories; two pairs share their last path segment (x/model, y/model and a list next to
// container/list) so that import names have to be disambiguated
var dirNames = []string{"a", "b", "c", "d", "api", "core", "v1", "x/model", "y/model", "list"}
var typeNames = []string{"Alpha", "Beta", "Gamma", "Delta", "Item", "ItemList", "Node", "Opt", "T", "U", "V", "K", "lower", "Spec",
	// pairs that differ only in case (the exported type and its unexported twin)
	"opt", "item", "spec", "node", "alpha",
	// identifiers outside ASCII
	"Ünï", "Δelta", "数据"}
var docWords = []string{"is a thing.", "holds data", "does work; see below.", "represents state"}

func drawTag(r *Rng, gen string, allowFalse bool) Tag {
	t := Tag{Marker: Pick(r, []string{"+", "+", "@"}), Key: "gengo:" + gen, Tight: r.P(0.15)}
	switch r.Intn(10) {
	case 0, 1, 2, 3:
		// bare
	case 4:
		t.Sep, t.Val = "=", "true"
	case 5, 6:
		if allowFalse {
			t.Sep, t.Val = "=", "false"
		}
	case 7:
		// a sub tag enables on its own
		t.Key += ":" + Pick(r, []string{"sub", "interfaces", "y"})
		if r.P(0.5) {
			t.Sep, t.Val = "=", Pick(r, []string{"v", "false", "a,b"})
		}
	case 8:
		t.Sep, t.Val = "=", Pick(r, []string{"FALSE", "0", "no", "falsey"})
	case 9:
		if allowFalse {
			t.Sep, t.Val = " ", "false"
		} else {
			t.Sep, t.Val = " ", "yes"
		}
	}
	return t
}

// drawTags draws a set of tags with distinct keys (rule w3).
func drawTags(r *Rng, gens []string, p float64, allowFalse bool) []Tag {
	var out []Tag
	seen := map[string]bool{}
	for _, g := range gens {
		if !r.P(p) {
			continue
		}
		n := 1
		if r.P(0.2) {
			n = 2
		}
		for i := 0; i < n; i++ {
			t := drawTag(r, g, allowFalse)
			if seen[t.Key] {
				continue
			}
			seen[t.Key] = true
			out = append(out, t)
		}
	}
	if r.P(0.15) {
		// unrelated tags and near misses never enable anything
		for _, t := range []Tag{{Marker: "+", Key: "k8s:deepcopy-gen", Sep: "=", Val: "true"}, {Marker: "+", Key: "gengo", Sep: "", Val: ""}, {Marker: "+", Key: "gengox:" + gens[0]}} {
			if !seen[t.Key] && r.P(0.5) {
				seen[t.Key] = true
				out = append(out, t)
			}
		}
	}
	return out
}

// DrawModule draws a synthetic module.
func DrawModule(r *Rng, cfg SpecConfig) *ModuleSpec {
	m := &ModuleSpec{ModPath: Pick(r, modPaths), GoVer: Pick(r, goVers)}
	nPkgs := r.Range(cfg.MinPkgs, cfg.MaxPkgs)
	usedDirs := map[string]bool{}
	for pi := 0; pi < nPkgs; pi++ {
		dir := ""
		for tries := 0; ; tries++ {
			dir = Pick(r, dirNames)
			if pi == 0 && r.P(cfg.PRootPkg) {
				dir = "" // a package in the module root: gengo.sum lives in its directory
				break
			}
			if pi > 0 && r.P(cfg.PNested) {
				// nest below an earlier package directory
				parent := m.Pkgs[r.Intn(pi)].Dir
				dir = strings.TrimPrefix(parent+"/"+Pick(r, []string{"sub", "internal", "x"}), "/")
			}
			if !usedDirs[dir] {
				break
			}
			if tries > 20 {
				dir = fmt.Sprintf("p%d", pi)
				break
			}
		}
		usedDirs[dir] = true
		base := dir[strings.LastIndex(dir, "/")+1:]
		if dir == "" {
			base = "rootpkg"
		}
		p := &PkgSpec{Dir: dir, Name: base}
		if r.P(cfg.PNameMismatch) {
			p.Name = base + "pkg"
		}
		if p.Name == "internal" {
			p.Name = "internalpkg"
		}
		// imports: a DAG over earlier packages; "internal" directories may only
		// be imported from inside their parent tree
		for j := 0; j < pi; j++ {
			if !r.P(0.5) {
				continue
			}
			if importAllowed(dir, m.Pkgs[j].Dir) {
				p.Imports = append(p.Imports, j)
			}
		}
		if r.P(cfg.PStd) {
			p.Std = []string{Pick(r, []string{"container/list", "container/ring", "unicode"})}
			if r.P(0.04) {
				p.Std = []string{Pick(r, []string{"strings", "time"})}
			}
		}
		if r.P(0.5) {
			p.DocText = []string{"Package " + p.Name + " " + Pick(r, docWords)}
		}
		p.DocTags = drawTags(r, cfg.GenNames, cfg.PPkgTags, cfg.AllowFalse)
		drawDecls(r, cfg, p, pi)
		if len(p.Files) > 1 && r.P(0.3) {
			for _, t := range p.DocTags {
				if r.P(0.7) {
					p.DupDocTags = append(p.DupDocTags, t)
				}
			}
		}
		m.Pkgs = append(m.Pkgs, p)
	}
	if r.P(cfg.PPre) {
		drawPre(r, cfg, m)
	}
	return m
}

func importAllowed(fromDir, toDir string) bool {
	// every "internal" element restricts importers to the tree rooted at its parent; the last one is the strictest
	t := "/" + toDir + "/"
	i := strings.LastIndex(t, "/internal/")
	if i < 0 {
		return true
	}
	parent := strings.Trim(t[:i], "/")
	return parent == "" || fromDir == parent || strings.HasPrefix(fromDir, parent+"/")
}

func drawDecls(r *Rng, cfg SpecConfig, p *PkgSpec, pi int) {
	used := map[string]bool{}
	name := func() string {
		for tries := 0; tries < 30; tries++ {
			n := Pick(r, typeNames)
			if !used[n] {
				used[n] = true
				return n
			}
		}
		n := fmt.Sprintf("Ty%d", len(used))
		used[n] = true
		return n
	}
	doc := func(n string) []string {
		if r.P(0.5) {
			return []string{n + " " + Pick(r, docWords)}
		}
		return nil
	}
	nFiles := r.Range(1, 2)
	files := make([]*SrcFile, nFiles)
	files[0] = &SrcFile{Name: "doc.go"}
	for i := 1; i < nFiles; i++ {
		files[i] = &SrcFile{Name: fmt.Sprintf("f%d.go", i)}
	}
	file := func() *SrcFile { return files[r.Intn(nFiles)] }

	// the anchor: an exported struct every package has
	anchor := &Decl{Kind: "struct", Name: fmt.Sprintf("Anchor%d", pi), Doc: doc(fmt.Sprintf("Anchor%d", pi))}
	anchor.Tags = drawTags(r, cfg.GenNames, cfg.PDeclTags, cfg.AllowFalse)
	used[anchor.Name] = true
	p.Anchor = anchor.Name
	files[0].Decls = append(files[0].Decls, anchor)

	var typeDecls []*Decl // package-level, non-alias, may carry methods / be shadowed
	typeDecls = append(typeDecls, anchor)
	fnCount := 0
	n := r.Range(1, cfg.MaxDecls)
	for i := 0; i < n; i++ {
		mk := func() *Decl {
			kind := "struct"
			switch {
			case r.P(cfg.PAlias) && len(typeDecls) > 0:
				kind = "alias"
			case r.P(cfg.PGeneric):
				kind = "generic"
			case r.P(cfg.PIface):
				kind = "iface"
			default:
				kind = Pick(r, []string{"struct", "struct", "scalar", "mapt", "slice", "functype"})
			}
			nm := name()
			d := &Decl{Kind: kind, Name: nm, Doc: doc(nm), Tags: drawTags(r, cfg.GenNames, cfg.PDeclTags, cfg.AllowFalse)}
			if len(d.Tags) > 0 && r.P(0.03) {
				// an embedded blob in the documentation: one very long comment line, the tags after it
				d.Doc = append(d.Doc, "blob: "+strings.Repeat("0123456789abcdef", 4200))
			}
			if kind == "alias" {
				if r.P(0.3) {
					d.Target = Pick(r, []string{"int", "string", "[]byte"})
				} else {
					if t := Pick(r, typeDecls); t.Kind == "generic" {
						d.Target = t.Name + "[int]"
					} else {
						d.Target = t.Name
					}
				}
			}
			return d
		}
		if r.P(cfg.PGrouped) {
			g := &Decl{Kind: "grouped"}
			for k := r.Range(1, 3); k > 0; k-- {
				d := mk()
				g.Group = append(g.Group, d)
				if d.Kind != "alias" {
					typeDecls = append(typeDecls, d)
				}
			}
			f := file()
			f.Decls = append(f.Decls, g)
			continue
		}
		d := mk()
		f := file()
		f.Decls = append(f.Decls, d)
		if d.Kind != "alias" {
			typeDecls = append(typeDecls, d)
		}
	}
	// fields named after another type of the package, with a comment of their own: the tags a generator
	// reads for the field (Context.Doc on the field object) are the field's, and the type's stay the type's
	if r.P(cfg.PNamedFields) && len(typeDecls) > 1 {
		var structs []*Decl
		for _, t := range typeDecls {
			if t.Kind == "struct" {
				structs = append(structs, t)
			}
		}
		for k := r.Range(1, 3); k > 0 && len(structs) > 0; k-- {
			st, t := Pick(r, structs), Pick(r, typeDecls)
			typ := "*" + t.Name
			if t.Kind == "generic" {
				typ += "[int]"
			}
			dup := t == st || t.Name == "ID" || t.Name == "Name"
			for _, f := range st.Fields {
				dup = dup || strings.HasSuffix(f, "\t"+t.Name+" "+typ)
			}
			if dup {
				continue
			}
			fd := &Decl{Tags: drawTags(r, cfg.GenNames, 0.7, cfg.AllowFalse)}
			if r.P(0.5) {
				fd.Doc = []string{t.Name + " " + Pick(r, docWords)}
			}
			st.Fields = append(st.Fields, docLines(fd, "\t")+"\t"+t.Name+" "+typ)
		}
	}
	// methods
	for _, t := range typeDecls {
		if t.Kind == "iface" || !r.P(cfg.PMethods) {
			continue
		}
		for k := r.Range(1, 2); k > 0; k-- {
			fnCount++
			recv := t.Name
			if t.Kind == "generic" {
				recv += "[X]"
			}
			md := &Decl{Kind: "method", Name: fmt.Sprintf("M%d", fnCount), Target: recv, Ptr: r.P(0.6)}
			f := file()
			f.Decls = append(f.Decls, md)
		}
	}
	// a method declared through an alias of a package-level type belongs to that type
	for _, f := range files {
		for _, d := range f.Decls {
			if d.Kind != "alias" || !r.P(cfg.PMethods) {
				continue
			}
			for _, t := range typeDecls {
				if t.Name == d.Target && t.Kind != "iface" && t.Kind != "generic" {
					fnCount++
					fl := file()
					fl.Decls = append(fl.Decls, &Decl{Kind: "method", Name: fmt.Sprintf("ViaAlias%d", fnCount), Target: d.Name, Ptr: r.P(0.5)})
				}
			}
		}
	}
	// ... and so does one declared through an alias of the POINTER type (type P = *T; func (P) M()): a method
	// of T with a pointer receiver
	if r.P(cfg.PMethods * 0.5) {
		var cands []*Decl
		for _, t := range typeDecls {
			if t.Kind != "iface" && t.Kind != "generic" && !t.Broken {
				cands = append(cands, t)
			}
		}
		if len(cands) > 0 {
			t := Pick(r, cands)
			nm := name()
			fl := file()
			fl.Decls = append(fl.Decls, &Decl{Kind: "alias", Name: nm, Target: "*" + t.Name, Tags: drawTags(r, cfg.GenNames, cfg.PDeclTags, cfg.AllowFalse)})
			fnCount++
			fl.Decls = append(fl.Decls, &Decl{Kind: "method", Name: fmt.Sprintf("ViaPtrAlias%d", fnCount), Target: nm})
		}
	}
	// constants and functions
	for k := r.Intn(3); k > 0; k-- {
		fnCount++
		kind := Pick(r, []string{"const", "func"})
		d := &Decl{Kind: kind, Name: fmt.Sprintf("%s%d", map[string]string{"const": "C", "func": "Fn"}[kind], fnCount)}
		f := file()
		f.Decls = append(f.Decls, d)
	}
	// shadowing: a function-local type / a type parameter named like a package-level type
	if r.P(cfg.PShadowLocal) {
		t := Pick(r, typeDecls)
		fnCount++
		f := file()
		f.Decls = append(f.Decls, &Decl{Kind: "local-shadow", Name: fmt.Sprintf("shadowFn%d", fnCount), Target: t.Name})
	}
	if r.P(cfg.PShadowTypeParam) {
		t := Pick(r, typeDecls)
		fnCount++
		f := file()
		f.Decls = append(f.Decls, &Decl{Kind: "typeparam-shadow", Name: fmt.Sprintf("ShadowGen%d", fnCount), Target: t.Name})
	}
	if r.P(cfg.PLocalUnique) {
		fnCount++
		f := file()
		f.Decls = append(f.Decls, &Decl{Kind: "local-unique", Name: fmt.Sprintf("localFn%d", fnCount), Target: fmt.Sprintf("OnlyLocal%d", fnCount)})
	}
	// shuffle declaration order inside each file except the anchor staying first in doc.go
	for fi, f := range files {
		start := 0
		if fi == 0 {
			start = 1
		}
		rest := f.Decls[start:]
		for i := len(rest) - 1; i > 0; i-- {
			j := r.Intn(i + 1)
			rest[i], rest[j] = rest[j], rest[i]
		}
	}
	// files as other editors and platforms write them
	for _, f := range files {
		f.BOM = r.P(0.06)
		f.CRLF = r.P(0.08)
	}
	// positions redirected by //line directives: from there on the file reports the name and the lines of
	// the source it was generated from (a name in the same directory)
	for fi, f := range files {
		for di, d := range f.Decls {
			if (fi > 0 || di > 0) && r.P(cfg.PLineDirective) {
				d.LineBefore = fmt.Sprintf("%s_src%d.y:%d", strings.TrimSuffix(f.Name, ".go"), di, r.Range(1, 4000))
			}
		}
	}
	p.Files = files
}

// drawPre adds files gengo must never touch: look-alikes of its output names,
// foreign files, a nested module, testdata, dot files.
func drawPre(r *Rng, cfg SpecConfig, m *ModuleSpec) {
	base := cfg.Base
	add := func(path, content string) {
		for _, e := range m.Pre {
			if e.Path == path {
				return
			}
		}
		pf := PreFile{Path: path, Content: content}
		// most of what lies around in a real tree was not written a second ago, and some of it is read-only
		switch {
		case r.P(0.35):
			pf.Age = "old"
		case r.P(0.08):
			pf.Age = "future"
		}
		pf.ReadOnly = r.P(0.15)
		m.Pre = append(m.Pre, pf)
	}
	for pi, p := range m.Pkgs {
		dir := p.Dir
		j := func(n string) string {
			if dir == "" {
				return n
			}
			return dir + "/" + n
		}
		if r.P(0.5) {
			// base name without the dot: not an output file
			add(j(base+"X.go"), "package "+p.Name+"\n\n// look-alike, not generated\nvar LookAlike"+fmt.Sprint(pi)+" = 1\n")
		}
		if r.P(0.4) {
			add(j(base+"_x.go"), "package "+p.Name+"\n\nvar lookAlikeU"+fmt.Sprint(pi)+" = 2\n")
		}
		if r.P(0.3) {
			add(j(base), "not a go file, named exactly like the base\n")
		}
		if r.P(0.3) {
			add(j(base+".txt"), "a non-Go file with the output prefix\n")
		}
		if r.P(0.4) {
			add(j("README.md"), "# readme "+fmt.Sprint(pi)+"\n")
		}
		if r.P(0.3) {
			add(j("testdata/"+base+".x.go"), "package testdata\n")
		}
		if r.P(0.2) {
			add(j(".hidden"), "dot file\n")
		}
		if r.P(0.3) {
			// files of the directory that are NOT files of the package as loaded: tests, other platforms,
			// other build tags, ignored tools. They count for the directory hash, their declarations do
			// not exist for generators (ExcludedTypeNames)
			g := Pick(r, cfg.GenNames)
			switch r.Intn(5) {
			case 0:
				add(j("extra_test.go"), "package "+p.Name+"\n\n// FromTest is declared in a test file.\n// +gengo:"+g+"\ntype FromTest struct{}\n")
			case 1:
				add(j("ext_test.go"), "package "+p.Name+"_test\n\n// +gengo:"+g+"\ntype FromExtTest struct{}\n")
			case 2:
				add(j("impl_windows.go"), "package "+p.Name+"\n\n// +gengo:"+g+"\ntype OnlyWindows struct{}\n")
			case 3:
				add(j("tagged.go"), "//go:build verif_never\n\npackage "+p.Name+"\n\n// +gengo:"+g+"\ntype OnlyWithTag struct{}\n")
			case 4:
				add(j("tool.go"), "//go:build ignore\n\npackage main\n\n// +gengo:"+g+"\ntype OnlyIgnored struct{}\n\nfunc main() {}\n")
			}
		}
		if r.P(0.35) {
			// what developers, editors and merge tools leave next to sources: parked or backed-up Go files
			n := Pick(r, []string{"handler.go.tmp", "old_impl.go.tmp", "doc.go.orig", "doc.go~", "types.go.bak", "notes.tmp", "conflict.go.rej"})
			add(j(n), "package "+p.Name+"\n\n// parked by hand, not by gengo\nfunc Parked"+fmt.Sprint(pi)+"() {}\n")
		}
		if r.P(0.25) {
			// a directory (not a package) whose name has the output prefix
			add(j(base+".crds/widget.yaml"), "kind: Widget\n")
			add(j(base+".crds/README"), "artefacts kept next to the generated code\n")
		}
		if r.P(0.2) {
			// a directory whose name reads like an output FILE (legal: the go tool ignores directories whatever
			// they are called): fixtures kept in it are user files, at any depth
			n := base + "." + Pick(r, []string{"golden", "fixtures", "want"}) + ".go"
			add(j(n+"/expected.txt"), "expected output, kept by hand\n")
			add(j(n+"/more/nested.json"), "{\"kept\": true}\n")
		}
		if r.P(0.3) {
			// what a killed earlier run may have left behind: a long, stale temporary output
			g := Pick(r, cfg.GenNames)
			add(j(base+"."+g+".go.tmp"), "package "+p.Name+"\n\n// stale temporary output of a run that died\n"+strings.Repeat("var StaleTmp = `"+strings.Repeat("x", 60)+"`\n", 120))
		}
	}
	if r.P(0.3) {
		add("nested/go.mod", "module example.com/nested\n\ngo 1.22\n")
		add("nested/n.go", "package nested\n\ntype N struct{}\n")
		add("nested/"+base+".x.go", "package nested\n\nvar FromNested = 1\n")
	}
	if r.P(0.3) {
		add("notes.txt", "top-level notes\n")
	}
}

// AddCgoFile moves up to two type declarations of one package of the main module into a new file that
// imports "C". Reports whether it did.
func AddCgoFile(r *Rng, m *ModuleSpec) bool {
	var cands []int
	for pi, p := range m.Pkgs {
		if !p.InSub && len(p.Files) > 0 {
			cands = append(cands, pi)
		}
	}
	if len(cands) == 0 {
		return false
	}
	p := m.Pkgs[Pick(r, cands)]
	native := &SrcFile{Name: "native.go", Cgo: true}
	for fi, f := range p.Files {
		var keep []*Decl
		for di, d := range f.Decls {
			movable := false
			switch d.Kind {
			case "struct", "scalar", "mapt", "slice", "functype", "iface", "alias", "generic", "grouped":
				movable = !(fi == 0 && di == 0) && d.Name != p.Anchor
			}
			if movable && len(native.Decls) < 2 && r.P(0.6) {
				d.LineBefore = ""
				native.Decls = append(native.Decls, d)
				continue
			}
			keep = append(keep, d)
		}
		f.Decls = keep
	}
	if len(native.Decls) == 0 {
		native.Decls = append(native.Decls, &Decl{Kind: "struct", Name: "NativeHandle", Doc: []string{"NativeHandle wraps a C resource."}})
	}
	p.Files = append(p.Files, native)
	return true
}

// ExcludedTypeNames: types declared only in files that build constraints, the _test suffix or the
// platform suffix keep out of the package (see drawPre). No generator may ever be called for them.
var ExcludedTypeNames = map[string]bool{"FromTest": true, "FromExtTest": true, "OnlyWindows": true, "OnlyWithTag": true, "OnlyIgnored": true}

// AddIllTyped gives one package of the main module a type declared on an undefined identifier (an existing
// scalar declaration is turned into one, or a tagged one is added). Reports the package index, -1 if none.
func AddIllTyped(r *Rng, m *ModuleSpec, genNames []string) int {
	var cands []int
	for pi, p := range m.Pkgs {
		if !p.InSub && len(p.Files) > 0 {
			cands = append(cands, pi)
		}
	}
	if len(cands) == 0 {
		return -1
	}
	pi := Pick(r, cands)
	p := m.Pkgs[pi]
	for _, f := range p.Files {
		for _, d := range f.Decls {
			if d.Kind == "scalar" && d.Name != p.Anchor {
				d.Broken = true
				return pi
			}
		}
	}
	d := &Decl{Kind: "scalar", Name: "Pending", Broken: true, Doc: []string{"Pending is declared on a type that is not generated yet."}}
	if len(genNames) > 0 {
		d.Tags = []Tag{{Marker: "+", Key: "gengo:" + Pick(r, genNames)}}
	}
	f := p.Files[len(p.Files)-1]
	f.Decls = append(f.Decls, d)
	return pi
}
