package sim

import (
	"fmt"
	"os"
	"path/filepath"
	"strings"

	"verifharness/proto"
	"verifharness/simrt"
)

// smallWorld draws a world small enough for every event of a run to be a
// crash point.
func smallWorld(r *Rng, base string, minPkgs, maxPkgs, maxDecls int) (*ModuleSpec, []string, []proto.GenScript) {
	names := Pick(r, genNamePool)
	if len(names) > 2 {
		names = names[:2]
	}
	return smallWorldOf(r, base, names, minPkgs, maxPkgs, maxDecls)
}

func smallWorldOf(r *Rng, base string, names []string, minPkgs, maxPkgs, maxDecls int) (*ModuleSpec, []string, []proto.GenScript) {
	cfg := DrawSpecConfig(r, names, base)
	cfg.MinPkgs = minPkgs
	cfg.MaxPkgs = r.Range(minPkgs, maxPkgs)
	cfg.MaxDecls = r.Range(1, maxDecls)
	cfg.PPkgTags = 0.8 // make sure something is generated
	cfg.PDeclTags = 0.8
	cfg.AllowFalse = r.P(0.5)
	m := DrawModule(r, cfg)
	scfg := DrawScriptConfig(r)
	scfg.PDefer = 0.5 // several deferred callbacks per package: a failing one may be followed by succeeding ones
	gens := []proto.GenScript{Probe()}
	nonew := 0
	for _, n := range names {
		g := DrawScript(r, scfg, m, n)
		if g.Impl == "nonew" {
			if nonew++; nonew > 4 {
				g.Impl = "new" // the worker has four prototypes of each kind for generators without New
			}
		}
		gens = append(gens, g)
	}
	return m, names, gens
}

func execEvents(rec *StepRecord) []proto.Event {
	var out []proto.Event
	if rec == nil || rec.Resp == nil {
		return nil
	}
	for _, e := range rec.Resp.Events {
		if e.Exec >= 0 {
			out = append(out, e)
		}
	}
	return out
}

// saveStart returns the Exec index of the open that begins the gengo.sum save
// (len(events) if the run never saved).
func saveStart(evs []proto.Event) int {
	for _, e := range evs {
		if e.Kind == "os.open" && e.Path == "gengo.sum" && e.N&(os.O_WRONLY|os.O_RDWR) != 0 {
			return e.Exec
		}
	}
	return 1 << 30
}

type failurePoint struct {
	name  string
	fault proto.Fault
	how   string
}

// SimC02: record-then-inject enumeration of failure points of a victim run.
func SimC02(c *CheckCtx, i int, r *Rng) error {
	base := drawBase(r)
	thorough := c.Tier == "thorough"
	singleCPU := i%3 == 1
	minPkgs := 1
	if singleCPU {
		minPkgs = 2 // several packages to execute: what a fan-out over packages needs to go wrong
	}
	m, names, gens := smallWorld(r, base, minPkgs, map[bool]int{false: 2, true: 4}[thorough], map[bool]int{false: 4, true: 8}[thorough])
	real := i%5 == 4
	if !real && i%6 == 2 {
		// many generators on one or two packages: a dozen output files per package in one run (what a pool
		// of file writers, or anything else that changes strategy with the number of outputs, needs)
		var many []string
		for k := 0; k < r.Range(11, 15); k++ {
			many = append(many, fmt.Sprintf("g%02d", k))
		}
		m, names, gens = smallWorldOf(r, base, many, 1, 2, 2)
		c.Env.Stats.Add("probe/many-generators-world", 1)
	}
	bulk, bulkGen := false, ""
	if !real && i%6 == 5 {
		// one generator renders a table of a few MiB for one package: output far beyond any size at which
		// an implementation might switch to another way of checking, formatting or writing it
		for gi := range gens {
			if !isScripted(&gens[gi]) {
				continue
			}
			key := m.ImportPath(0) + " " + m.Pkgs[0].Anchor
			rules := map[string]proto.Rule{}
			for k, v := range gens[gi].Rules {
				rules[k] = v
			}
			rule := rules[key]
			rule.Ret = ""
			rule.Render = append(append([]proto.Part{}, rule.Render...), proto.Part{Text: "Bulk_" + sanitize(gens[gi].Name), Bulk: r.Range(2200, 3200)})
			rules[key] = rule
			gens[gi].Rules = rules
			bulk, bulkGen = true, gens[gi].Name
			break
		}
		c.Env.Stats.Add("probe/multi-megabyte-output-world", 1)
	}
	if real {
		// crash consistency of the files of the real runtimedoc/deepcopy/defaulter generators
		m, names = DrawRealModule(r, 1)
		gens = RealGens(names)
		c.Env.Stats.Add("probe/real-generators-world", 1)
	}
	all := make([]int, len(m.Pkgs))
	for k := range all {
		all[k] = k
	}
	args := proto.GenArgs{Entrypoint: spell(r, m, all), Base: base, All: true, Globals: drawGlobals(r, names)}
	if real {
		args.Globals = nil
	}
	sched := drawSched(r)
	if i%2 == 0 {
		// a slow machine: every callback and file-system call takes seconds of simulated time (whatever
		// gengo does "every so often" or "after a while" happens in the middle of the victim run)
		sched.Clock = "slow:2500"
	}
	mkRun := func(fresh bool) *RunOp { return &RunOp{Args: args, Gens: gens, Sched: sched, Fresh: fresh} }

	// the world already holds a complete set of outputs and a gengo.sum (there is something to damage),
	// then one source edit gives the victim run work to do
	var setup []Op
	oldVersions := false
	if r.P(0.85) {
		setupRun := mkRun(true)
		if !real && r.P(0.5) {
			oldVersions = true
			// the outputs on disk come from other generator versions: the victim run has to CHANGE files,
			// so an output that silently stays as it was is visible
			old := []proto.GenScript{Probe()}
			scfg := DrawScriptConfig(r)
			for k, n := range names {
				g := DrawScript(r, scfg, m, n)
				if k+1 < len(gens) && isScripted(&gens[k+1]) {
					g.Impl = gens[k+1].Impl // (the worker has a fixed number of prototypes for generators without New)
				}
				old = append(old, g)
			}
			setupRun.Gens = old
		}
		setup = append(setup, Op{Kind: "run", Run: setupRun})
		if r.P(0.5) {
			again := *setupRun
			setup = append(setup, Op{Kind: "run", Run: &again})
		}
		nEdits := r.Range(1, len(m.Pkgs))
		for _, pi := range r.Perm(len(m.Pkgs))[:nEdits] {
			f := m.Pkgs[pi].Files[0]
			setup = append(setup, Op{Kind: "edit", Path: filepath.Join(m.Pkgs[pi].Dir, f.Name), Content: m.FileSource(pi, f, true) + "\n// edited before the victim run\n"})
		}
		if r.P(0.3) {
			pi := r.Intn(len(m.Pkgs))
			setup = append(setup, Op{Kind: "edit", Note: "stale output", Path: filepath.Join(m.Pkgs[pi].Dir, base+".old.go"),
				Content: fmt.Sprintf("package %s\n\nvar StaleOld%d = 1\n", m.Pkgs[pi].Name, pi)})
		}
	}
	victim := mkRun(true)
	if r.P(0.2) || oldVersions {
		// (the cache knows nothing about generator versions: only a forced run replaces the outputs of
		// every package, cached ones included, so only then do "never failed" and "failed, then re-run"
		// have to agree on every file)
		victim.Args.Force = true
	}
	if singleCPU {
		victim.Args.Force = true
		// one CPU: if gengo (or a generator) ever runs things concurrently, the scheduling is then as
		// sequential and repeatable as the Go runtime gets, and failures during dispatch stay visible
		victim.GoMaxProcs = 1
	}

	// 1. record the fault-free victim run
	rec := &Scenario{Kind: "history", Module: m, Base: base, Setup: setup, Variants: []Variant{{Name: "record", Ops: []Op{{Kind: "run", Run: victim}}}}}
	out, err := c.RunScenario(rec, i)
	if err != nil {
		return err
	}
	steps := out.Records["record"]
	if len(steps) == 0 || steps[0].Resp == nil || steps[0].Resp.LoadErr != "" {
		return nil
	}
	evs := execEvents(steps[0])
	if steps[0].Resp.ExecErr != "" || len(steps[0].Executed) == 0 {
		return nil // nothing to protect in this world
	}
	save := saveStart(evs)

	// 2. enumerate failure points
	var points []failurePoint
	if bulk {
		// the callback that renders the table also renders something broken after it
		for _, e := range evs {
			if e.Kind == "gen" && e.Pkg == m.ImportPath(0) && e.Type == m.Pkgs[0].Anchor && e.Gen == bulkGen {
				points = append(points, failurePoint{name: fmt.Sprintf("unparseable@bulk/%s/%s.%s", e.Gen, e.Pkg, e.Type),
					fault: proto.Fault{ExecSeq: -1, Kind: e.Kind, Gen: e.Gen, Pkg: e.Pkg, Type: e.Type, Nth: 0, Do: "gen-unparseable"}})
				break
			}
		}
	}
	seenUnparse := map[string]bool{}
	for _, e := range evs {
		switch e.Kind {
		case "gen", "alias", "defer":
			points = append(points, failurePoint{name: fmt.Sprintf("gen-error@%s/%s/%s.%s", e.Kind, e.Gen, e.Pkg, e.Type),
				fault: proto.Fault{ExecSeq: -1, Kind: e.Kind, Gen: e.Gen, Pkg: e.Pkg, Type: e.Type, Nth: 0, Do: "gen-error"}})
			points = append(points, failurePoint{name: fmt.Sprintf("panic@%s/%s/%s.%s", e.Kind, e.Gen, e.Pkg, e.Type), how: "kill-before-save",
				fault: proto.Fault{ExecSeq: -1, Kind: e.Kind, Gen: e.Gen, Pkg: e.Pkg, Type: e.Type, Nth: 0, Do: "gen-panic"}})
			if k := e.Gen + " " + e.Pkg; !seenUnparse[k] && e.Kind != "defer" {
				seenUnparse[k] = true
				points = append(points, failurePoint{name: fmt.Sprintf("unparseable@%s/%s", e.Gen, e.Pkg),
					fault: proto.Fault{ExecSeq: -1, Kind: e.Kind, Gen: e.Gen, Pkg: e.Pkg, Type: e.Type, Nth: 0, Do: "gen-unparseable"}})
			}
		}
	}
	killAll := len(evs) <= 350 && !thorough
	lastWriteOf := map[string]int{}
	for _, e := range evs {
		if e.Kind == "os.write" {
			lastWriteOf[e.Path] = e.Exec
		}
	}
	for _, e := range evs {
		take := killAll
		if !take {
			switch {
			case e.Kind != "os.write":
				take = true // every callback, open, close, remove, phase marker
			case e.Nth == 0 || e.Exec == lastWriteOf[e.Path] || e.Nth%16 == 0 || e.Nth < 12 || e.Path == "gengo.sum":
				take = true
			default:
				take = r.P(0.05)
			}
		}
		if !take {
			continue
		}
		how := "kill-in-save"
		if e.Exec < save {
			how = "kill-before-save"
		}
		points = append(points, failurePoint{name: fmt.Sprintf("kill@%d:%s:%s", e.Exec, e.Kind, e.Path), fault: proto.Fault{ExecSeq: e.Exec, Do: "kill"}, how: how})
		if e.Kind == "os.write" && e.N > 1 && (e.Path == "gengo.sum" || r.P(0.1)) {
			j := r.Range(1, e.N-1)
			h := how
			if e.Path == "gengo.sum" {
				h = "kill-in-save"
			}
			points = append(points, failurePoint{name: fmt.Sprintf("torn@%d:%s+%d", e.Exec, e.Path, j), fault: proto.Fault{ExecSeq: e.Exec, Do: fmt.Sprintf("kill-after:%d", j)}, how: h})
		}
	}
	// the caller cancels the context at some callback or file-system event (gengo may ignore it, or fail)
	for k := 0; k < 3 && len(evs) > 2; k++ {
		e := evs[r.Intn(len(evs))]
		points = append(points, failurePoint{name: fmt.Sprintf("cancel@%d:%s", e.Exec, e.Kind), fault: proto.Fault{ExecSeq: e.Exec, Do: "cancel"}})
	}
	// SIGTERM / SIGINT at some event (a CI timeout, docker stop, ctrl-c): without a handler the process
	// dies there; with one, the run must still not claim more than it did
	for k := 0; k < 3 && len(evs) > 2; k++ {
		e := evs[r.Intn(len(evs))]
		how := "kill-in-save"
		if e.Exec < save {
			how = "kill-before-save"
		}
		points = append(points, failurePoint{name: fmt.Sprintf("signal@%d:%s", e.Exec, e.Kind), how: how, fault: proto.Fault{ExecSeq: e.Exec, Do: Pick(r, []string{"signal:TERM", "signal:INT"})}})
	}
	// I/O errors on the output files: not a trigger the property names, but a failed run all the same -
	// it must not leave stale output behind that later runs trust (E4)
	for _, e := range evs {
		isOut := strings.HasPrefix(filepath.Base(e.Path), base+".")
		if !isOut || !(e.Kind == "os.rename" || (e.Kind == "os.open" && e.N&(os.O_WRONLY|os.O_RDWR) != 0) || (e.Kind == "os.write" && (e.Nth == 0 || r.P(0.02)))) {
			continue
		}
		do := "errno:" + Pick(r, errnosFor(e.Kind))
		if e.Kind == "os.write" {
			do = "short:0:" + Pick(r, writeErrnos)
		}
		points = append(points, failurePoint{name: fmt.Sprintf("ioerr@%d:%s:%s", e.Exec, e.Kind, e.Path), fault: proto.Fault{ExecSeq: -1, Kind: e.Kind, Path: e.Path, Phase: "exec", Nth: e.Nth, Do: do}})
	}
	// a process that dies while loading has written nothing yet: the tree must be untouched
	for _, pi := range r.Perm(len(m.Pkgs))[:min(2, len(m.Pkgs))] {
		f := filepath.Join(m.Pkgs[pi].Dir, m.Pkgs[pi].Files[0].Name)
		points = append(points, failurePoint{name: "kill@load:" + f, how: "kill-before-save",
			fault: proto.Fault{ExecSeq: -1, Kind: "os.open", Path: f, Phase: "load", Nth: r.Intn(2), Do: "kill"}})
	}
	// under a time budget not every point may get its turn: the generator-level points stay in front,
	// the others (kills, torn writes, cancellations, I/O errors, load kills) are mixed
	nGen := 0
	for nGen < len(points) && !strings.HasPrefix(points[nGen].name, "kill@") {
		nGen++
	}
	rest := points[nGen:]
	for k := len(rest) - 1; k > 0; k-- {
		j := r.Intn(k + 1)
		rest[k], rest[j] = rest[j], rest[k]
	}
	if bulk && len(points) > nGen+12 {
		points = points[:nGen+12] // (every run formats megabytes)
	}
	c.Env.Stats.Add("failure-points-enumerated", int64(len(points)))

	// 3. inject: batches of failure points share one setup and one never-failed reference
	const batch = 12
	for lo := 0; lo < len(points); lo += batch {
		if c.Expired() {
			break
		}
		hi := min(lo+batch, len(points))
		sc := &Scenario{Kind: "compare-recovery", Module: m, Base: base, Setup: setup}
		sc.Variants = append(sc.Variants, Variant{Name: "never-failed", Ops: []Op{{Kind: "run", Run: victim}, {Kind: "converge", K: 4, How: "recover"}}})
		for _, fp := range points[lo:hi] {
			v := *victim
			v.Faults = []proto.Fault{fp.fault}
			if strings.HasPrefix(fp.name, "gen-error@") || strings.HasPrefix(fp.name, "unparseable@") || strings.HasPrefix(fp.name, "ioerr@") {
				// half of the callers retry Execute on the same executor after a failure (the fault is gone by then)
				v.RetrySameExecutor = r.P(0.5)
			}
			sc.Variants = append(sc.Variants, Variant{Name: fp.name, Ops: []Op{{Kind: "run", Run: &v, How: fp.how}, {Kind: "converge", K: 4, How: "recover"}}})
			kind := strings.SplitN(fp.name, "@", 2)[0]
			c.Env.Stats.Add("points/"+kind, 1)
		}
		bout, err := c.RunScenario(sc, i)
		if err != nil {
			return err
		}
		for _, fp := range points[lo:hi] {
			if bout.NonTrivial(fp.name) {
				c.Env.Stats.Fingerprint(fmt.Sprintf("sim %d/%d pkgs/%d events/%s", i, len(m.Pkgs), len(evs), fp.name))
			} else {
				c.Env.Stats.Add("failure-points-not-fired", 1)
			}
		}
	}
	c.Env.Stats.Sample(map[string]any{"sim": i, "packages": len(m.Pkgs), "generators": names, "victim_events": len(evs), "failure_points": len(points),
		"first_points": pointNames(points, 6)}, 3)
	return nil
}

func pointNames(ps []failurePoint, n int) []string {
	var out []string
	for i, p := range ps {
		if i >= n {
			break
		}
		out = append(out, p.name)
	}
	return out
}

// SimC01: every written file is valid canonical Go (F1-F6 on every fault-free
// run) and an I/O error while writing is never swallowed (F0): record-then-
// inject enumeration of open/write faults on every output file and gengo.sum.
func SimC01(c *CheckCtx, i int, r *Rng) error {
	base := drawBase(r)
	names := Pick(r, genNamePool)
	cfg := DrawSpecConfig(r, names, base)
	cfg.PPkgTags, cfg.PDeclTags = 0.8, 0.8
	if c.Tier != "thorough" {
		cfg.MaxPkgs = min(cfg.MaxPkgs, 3)
	}
	m := DrawModule(r, cfg)
	twoModules := i%6 == 5
	if twoModules {
		addSubModule(r, cfg, m)
		// which module's packages come first in a run over both is part of the world: by turns the second
		// module sorts after the main one ("libb") and before it ("corp/libb")
		m.Sub.Path = []string{"libb", "corp/libb"}[(i/6)%2]
		c.Env.Stats.Add("probe/two-module-world", 1)
		c.Env.Stats.Add("probe/two-module-world/"+m.Sub.Path, 1)
	}
	scfg := DrawScriptConfig(r)
	scfg.PDeclTypes = 0.5 // single-run scenarios may render new named types
	scfg.PRefs = 0.5
	scfg.PNothing, scfg.PSkip, scfg.PIgnore = scfg.PNothing/2, scfg.PSkip/2, scfg.PIgnore/2
	gens := []proto.GenScript{Probe()}
	for _, n := range names {
		gens = append(gens, DrawScript(r, scfg, m, n))
	}
	eps := drawEntrypoints(r, m)
	args := proto.GenArgs{Entrypoint: spell(r, m, eps), Base: base, All: r.P(0.7), Globals: drawGlobals(r, names)}
	if twoModules {
		// one run over packages of both modules; without All (where gengo.sum lives is another matter)
		args.All = false
		forceSubRefs(m, gens)
		var all []int
		for k := range m.Pkgs {
			all = append(all, k)
		}
		args.Entrypoint = spell(r, m, all)
	}
	victim := &RunOp{Args: args, Gens: gens, Sched: drawSched(r), Fresh: true}
	var setup []Op
	dated := i%6 == 1 && !twoModules
	if r.P(0.3) || dated {
		// files exist already: the open truncates instead of creating
		setupGens := gens
		if r.P(0.5) || dated {
			// ... written by other versions of the generators: the victim run has to CHANGE them
			setupGens = []proto.GenScript{Probe()}
			for k, n := range names {
				g := DrawScript(r, scfg, m, n)
				g.Impl, g.NoAlias = gens[k+1].Impl, gens[k+1].NoAlias
				setupGens = append(setupGens, g)
			}
			victim.Args.Force = true
		}
		setup = append(setup, Op{Kind: "run", Run: &RunOp{Args: args, Gens: setupGens, Sched: simrt.Schedule{Default: "asc"}, Fresh: true}})
		switch {
		case dated:
			// ... and every sixth simulation dates them into the future (or makes them read-only)
			for _, pi := range eps {
				if r.P(0.7) {
					setup = append(setup, Op{Kind: "outclock", K: pi, How: "future"})
				} else {
					setup = append(setup, Op{Kind: "protect", K: pi})
				}
			}
			victim.Args.Force = true
		case r.P(0.3):
			// ... as links to files kept elsewhere
			setup = append(setup, Op{Kind: "linkout", K: Pick(r, eps)})
			victim.Args.Force = true
		case r.P(0.4):
			// ... read-only, or with clocks from the future or the past
			pi := Pick(r, eps)
			if r.P(0.4) {
				setup = append(setup, Op{Kind: "protect", K: pi})
			} else {
				setup = append(setup, Op{Kind: "outclock", K: pi, How: Pick(r, []string{"future", "future", "old"})})
			}
			victim.Args.Force = true
		}
	}
	rec := &Scenario{Kind: "history", Module: m, Base: base, Setup: setup, Variants: []Variant{{Name: "record", Ops: []Op{{Kind: "run", Run: victim}}}}}
	out, err := c.RunScenario(rec, i)
	if err != nil {
		return err
	}
	steps := out.Records["record"]
	if len(steps) == 0 || steps[0].Resp == nil || steps[0].Resp.LoadErr != "" || steps[0].Resp.ExecErr != "" {
		return nil
	}
	evs := execEvents(steps[0])
	c.Env.Stats.Fingerprint(fmt.Sprintf("c01/%d pkgs/go%s/%s/%v/%d events", len(m.Pkgs), m.GoVer, m.ModPath, names, len(evs)))

	// enumerate I/O failure points on output files
	type fp struct {
		name  string
		fault proto.Fault
	}
	var points []fp
	writes := map[string][]proto.Event{}
	for _, e := range evs {
		isOut := e.Path == "gengo.sum" || strings.HasPrefix(filepath.Base(e.Path), base+".")
		if !isOut {
			continue
		}
		switch e.Kind {
		case "os.open":
			if e.N&(os.O_WRONLY|os.O_RDWR) == 0 {
				continue
			}
			for _, errno := range openErrnos {
				if c.Tier != "thorough" && !r.P(0.5) {
					continue
				}
				points = append(points, fp{fmt.Sprintf("open:%s:%s", e.Path, errno),
					proto.Fault{ExecSeq: -1, Kind: "os.open", Path: e.Path, Phase: "exec", Nth: e.Nth, Do: "errno:" + errno}})
			}
		case "os.write":
			writes[e.Path] = append(writes[e.Path], e)
		case "os.remove", "os.rename", "os.close", "os.sync":
			points = append(points, fp{e.Kind[3:] + ":" + e.Path, proto.Fault{ExecSeq: -1, Kind: e.Kind, Path: e.Path, Phase: "exec", Nth: e.Nth, Do: "errno:" + Pick(r, errnosFor(e.Kind))}})
		}
	}
	// the caller's context is cancelled at a generator callback: whatever gengo does about it, a nil
	// return still promises files that hold everything that was rendered
	nGenEv := 0
	for _, e := range evs {
		if e.Kind == "gen" || e.Kind == "alias" || e.Kind == "defer" {
			nGenEv++
		}
	}
	k := 0
	for _, e := range evs {
		if e.Kind != "gen" && e.Kind != "alias" && e.Kind != "defer" {
			continue
		}
		k++
		if k == nGenEv || k == 1 || r.P(0.15) { // the last callback of the run in any case
			points = append(points, fp{fmt.Sprintf("cancel@%d:%s:%s.%s", e.Exec, e.Kind, e.Pkg, e.Type), proto.Fault{ExecSeq: e.Exec, Do: "cancel"}})
		}
	}
	for _, path := range sortedKeys(writes) { // (never iterate a map where the order feeds the PRNG)
		ws := writes[path]
		pick := map[int]bool{0: true, len(ws) - 1: true, len(ws) / 2: true}
		for k := 0; k < 4 && k < len(ws); k++ {
			pick[k] = true // header comment and package clause
		}
		nExtra := 3
		if c.Tier == "thorough" {
			nExtra = 12
		}
		if len(ws) <= 60 && c.Tier == "thorough" {
			for k := range ws {
				pick[k] = true
			}
		}
		for k := 0; k < nExtra; k++ {
			pick[r.Intn(len(ws))] = true
		}
		for k := range ws {
			if !pick[k] {
				continue
			}
			e := ws[k]
			short := 0
			if e.N > 1 && r.P(0.5) {
				short = r.Range(1, e.N-1)
			}
			errno := Pick(r, []string{"ENOSPC", "EIO", "EDQUOT"})
			points = append(points, fp{fmt.Sprintf("write:%s#%d:%s:short%d", path, e.Nth, errno, short),
				proto.Fault{ExecSeq: -1, Kind: "os.write", Path: path, Phase: "exec", Nth: e.Nth, Do: fmt.Sprintf("short:%d:%s", short, errno)}})
		}
	}
	c.Env.Stats.Add("failure-points-enumerated", int64(len(points)))
	const batch = 16
	for lo := 0; lo < len(points); lo += batch {
		if c.Expired() {
			break
		}
		sc := &Scenario{Kind: "history", Module: m, Base: base, Setup: setup}
		for _, p := range points[lo:min(lo+batch, len(points))] {
			v := *victim
			v.Faults = []proto.Fault{p.fault}
			// the follow-up fault-free run writes the files again: F1-F6 after a failure
			follow := *victim
			follow.Fresh = false
			sc.Variants = append(sc.Variants, Variant{Name: p.name, Ops: []Op{{Kind: "run", Run: &v}, {Kind: "run", Run: &follow}}})
		}
		bout, err := c.RunScenario(sc, i)
		if err != nil {
			return err
		}
		for _, p := range points[lo:min(lo+batch, len(points))] {
			fired := false
			for _, st := range bout.Records[p.name] {
				if st.Resp != nil && len(st.Resp.Fired) > 0 {
					fired = true
				}
			}
			if fired {
				c.Env.Stats.Fingerprint(fmt.Sprintf("c01/%d/%s", i, p.name))
			} else {
				c.Env.Stats.Add("failure-points-not-fired", 1)
			}
		}
	}
	c.Env.Stats.Sample(map[string]any{"sim": i, "module": m.ModPath, "go": m.GoVer, "packages": len(m.Pkgs), "generators": names, "events": len(evs), "io_failure_points": len(points)}, 3)
	return nil
}

// addSubModule appends two packages that live in a second, locally replaced module with its own
// module path (no dot: gofumpt tells std from non-std imports by the module path) and go version.
func addSubModule(r *Rng, cfg SpecConfig, m *ModuleSpec) {
	m.Sub = &SubModule{Dir: "libb", Path: Pick(r, []string{"libb", "corp/libb"}), GoVer: "1.18"} // never newer than the main module's go version
	cfg.PNested, cfg.PStd = 0, 0
	base := len(m.Pkgs)
	for k, dir := range []string{"libb/sub", "libb"} {
		p := &PkgSpec{Dir: dir, Name: dir[strings.LastIndex(dir, "/")+1:], InSub: true}
		if k == 1 {
			p.Imports = []int{base}
		}
		p.DocTags = drawTags(r, cfg.GenNames, 0.9, false)
		drawDecls(r, cfg, p, base+k)
		m.Pkgs = append(m.Pkgs, p)
	}
}

// forceSubRefs makes the first generator render, for the sub-module's root package, references to a
// std package and to the sub-module's other package: the import block then needs both groups.
func forceSubRefs(m *ModuleSpec, gens []proto.GenScript) {
	n := len(m.Pkgs)
	if m.Sub == nil || n < 2 || len(gens) < 2 {
		return
	}
	root, sub := n-1, n-2
	g := &gens[1]
	key := m.ImportPath(root) + " " + m.Pkgs[root].Anchor
	g.Rules[key] = proto.Rule{Render: []proto.Part{
		{Text: "\nvar SubRefStd "}, {Ref: "container/list.List"}, {Text: "\n\nvar SubRefLocal "}, {Ref: m.ImportPath(sub) + "." + m.Pkgs[sub].Anchor}, {Text: "\n"},
	}}
	// make sure the anchor is enabled for that generator
	for _, f := range m.Pkgs[root].Files {
		for _, d := range f.Decls {
			if d.Name == m.Pkgs[root].Anchor {
				d.Tags = []Tag{{Marker: "+", Key: "gengo:" + g.Name}}
			}
		}
	}
}
