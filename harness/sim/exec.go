package sim

import (
	"errors"
	"fmt"
	"os"
	"os/exec"
	"path/filepath"
	"sort"
	"strings"
	"sync"
	"sync/atomic"
	"time"

	"verifharness/proto"
	"verifharness/wk"
)

// Violation is one oracle failure.
type Violation struct {
	Property string `json:"property"`
	Oracle   string `json:"oracle"` // e.g. "G3"
	Class    string `json:"class"`  // stable discriminator, e.g. "local-type-passed"
	Detail   string `json:"detail"`
	Variant  string `json:"variant,omitempty"`
	Step     int    `json:"step"`
	// Facts are discriminators known-findings entries can match on.
	Facts map[string]string `json:"facts,omitempty"`
}

// Key identifies a violation class for minimisation and replay.
func (v Violation) Key() string { return v.Property + "/" + v.Oracle + "/" + v.Class }

// InfraError is trouble of the machinery itself (exit 2), never a verdict.
type InfraError struct{ Msg string }

func (e *InfraError) Error() string { return "infrastructure: " + e.Msg }

func infra(format string, args ...any) error { return &InfraError{Msg: fmt.Sprintf(format, args...)} }

// Env is shared by all simulations of one check invocation.
type Env struct {
	WorkerBin string
	// RaceWorkerBin: the gensim worker built with -race (empty: no race leg).
	RaceWorkerBin string
	InflBin       string
	InflRace      string
	GoRoot        string
	Scratch       string
	GoMaxProcs    int
	Timeout       time.Duration
	Stats         *Stats
}

// worldSeq numbers the scratch worlds of this process (shared by copies of an Env).
var worldSeq atomic.Int64

var (
	cgoOnce   sync.Once
	cgoUsable bool
)

// CgoUsable reports whether the go command of the workers can build packages that import "C" here
// (cgo enabled and a C compiler on PATH). Worlds with cgo files are only drawn when it can.
func (e *Env) CgoUsable() bool {
	cgoOnce.Do(func() {
		cmd := exec.Command(filepath.Join(e.GoRoot, "bin", "go"), "env", "CGO_ENABLED", "CC")
		cmd.Env = wk.Env(e.GoRoot, 0)
		out, err := cmd.Output()
		if err != nil {
			return
		}
		f := strings.Fields(string(out))
		if len(f) < 2 || f[0] != "1" {
			return
		}
		if _, err := exec.LookPath(f[1]); err != nil {
			return
		}
		cgoUsable = true
	})
	return cgoUsable
}

// NewWorld creates an empty scratch directory.
func (e *Env) NewWorld() (string, error) {
	d := filepath.Join(e.Scratch, fmt.Sprintf("w%d", worldSeq.Add(1)))
	if err := os.MkdirAll(d, 0o755); err != nil {
		return "", err
	}
	return d, nil
}

// StepRecord is what happened in one op (kept for replay files and oracles).
type StepRecord struct {
	Op       Op
	Resp     *proto.RunResp
	Killed   bool
	Pre      Snapshot
	Post     Snapshot
	PreSum   []byte
	HadSum   bool
	Executed map[string]bool // packages the probe saw
	Hload    map[string]string
	// HashMaybeFailed: packages whose load-time hash an injected fault may have hit (nested directories).
	HashMaybeFailed map[string]bool
	Content         map[string]map[string]string
	Local           []int
	Direct          []int
}

// Exec executes one variant (a history) against one world.
type Exec struct {
	Env        *Env
	Sc         *Scenario
	Variant    string
	Root       string
	W          *wk.Worker
	Model      *CacheModel
	Viol       []Violation
	Steps      []*StepRecord
	step       int
	nameForms  map[string]map[string]string // F7: "obj|ref path.Name" -> spelling -> first file (per run)
	clockTicks int
	reusedRun  bool        // the run being checked ran on a kept executor (see doRun)
	keptRec    *StepRecord // the run that loaded the executor the worker keeps alive
	// twoPass: a run with an unrecorded first pass happened (see violate)
	twoPass bool
	// loadBroken: the scenario broke a source file or go.mod on purpose.
	loadBroken bool
	// knownGo: <base>.*.go files that were Go files of a package before the run.
	knownGo map[string]string
	// afterCrash: an earlier run of this history was killed or hit an I/O fault;
	// a load failure now is the C02-E4 recovery clause, not an anomaly.
	afterCrash bool
	// wedged: the tree no longer loads; the rest of the history is meaningless.
	wedged  bool
	touches int
}

func (x *Exec) violate(prop, oracle, class, detail string, facts map[string]string) {
	if x.reusedRun && prop == "C08" && !(oracle == "S1" && (class == "skipped-without-sum-file" || class == "skipped-despite-force" || class == "skipped-without-all")) {
		// (what needs no hash to decide is decided for a kept executor too: no gengo.sum, Force, no All)
		return
	}
	if x.Sc != nil && x.Sc.OnlyOwnOracles && prop != x.Sc.Property && oracle != "X0" && oracle != "R1" {
		return
	}
	if x.twoPass && prop != "C06" && oracle != "X0" && oracle != "R1" {
		// the history contains a run whose executor made an unrecorded first pass (C06 two-pass drivers):
		// snapshots and the cache model do not describe what that pass did, so only the call-sequence
		// oracles of C06 are sound from there on
		return
	}
	x.Viol = append(x.Viol, Violation{Property: prop, Oracle: oracle, Class: class, Detail: detail, Variant: x.Variant, Step: x.step, Facts: facts})
}

// Close releases the worker.
func (x *Exec) Close() {
	if x.W != nil {
		x.W.Close()
		x.W = nil
	}
}

func (x *Exec) worker(fresh bool) (*wk.Worker, error) {
	return x.workerWith(fresh, 0)
}

func (x *Exec) workerWith(fresh bool, gomaxprocs int) (*wk.Worker, error) {
	if gomaxprocs > 0 {
		fresh = true
	}
	if x.W != nil && fresh {
		x.W.Close()
		x.W = nil
	}
	if x.W == nil {
		if gomaxprocs == 0 {
			gomaxprocs = x.Env.GoMaxProcs
		}
		wenv := wk.Env(x.Env.GoRoot, gomaxprocs)
		if x.Sc != nil && x.Sc.Module != nil && x.Sc.Module.Workspace {
			// workspace mode: the go command finds go.work by itself
			var keep []string
			for _, e := range wenv {
				if e != "GOWORK=off" {
					keep = append(keep, e)
				}
			}
			wenv = keep
		}
		w, err := wk.Start(x.Env.WorkerBin, wenv)
		if err != nil {
			return nil, infra("start worker: %v", err)
		}
		x.W = w
		x.Env.Stats.Add("workers-started", 1)
	}
	return x.W, nil
}

func (x *Exec) pkgDir(pi int) string { return filepath.Join(x.Root, x.Sc.Module.Pkgs[pi].Dir) }

// writeWithClock writes a file the way an external party with its own clock does (Op.MTime).
func (x *Exec) writeWithClock(path string, content []byte, policy string) error {
	var before time.Time
	if st, err := os.Stat(path); err == nil {
		before = st.ModTime()
		if st.Mode().Perm()&0o200 == 0 {
			_ = os.Chmod(path, 0o644) // (the harness edits as the owner would: after making the file writable)
		}
	}
	if err := os.WriteFile(path, content, 0o644); err != nil {
		return err
	}
	var t time.Time
	switch policy {
	case "":
		return nil
	case "keep":
		if before.IsZero() {
			return nil
		}
		t = before
	case "past":
		x.clockTicks++
		t = time.Date(2001, 2, 3, 4, 5, 6, 0, time.UTC).Add(time.Duration(x.clockTicks) * time.Second)
	case "future":
		x.clockTicks++
		t = time.Date(2037, 2, 3, 4, 5, 6, 0, time.UTC).Add(time.Duration(x.clockTicks) * time.Second)
	}
	x.Env.Stats.Add("fault/clock-"+policy, 1)
	return os.Chtimes(path, t, t)
}

// RunOps executes ops in order.
func (x *Exec) RunOps(ops []Op) error {
	for i := range ops {
		if err := x.Do(ops[i]); err != nil {
			return err
		}
	}
	return nil
}

// Do executes one op and evaluates the per-step oracles.
func (x *Exec) Do(op Op) error {
	defer func() { x.step++ }()
	if x.wedged {
		return nil
	}
	m := x.Sc.Module
	switch op.Kind {
	case "run":
		_, err := x.doRun(op)
		return err
	case "edit":
		p := filepath.Join(x.Root, op.Path)
		if err := os.MkdirAll(filepath.Dir(p), 0o755); err != nil {
			return infra("edit: %v", err)
		}
		if err := x.writeWithClock(p, []byte(op.Content), op.MTime); err != nil {
			return infra("edit: %v", err)
		}
		x.Env.Stats.Add("op/edit", 1)
	case "touch":
		// a source edit that changes no declaration: the file as the CURRENT spec renders it, plus a comment
		if op.K < 0 || op.K >= len(m.Pkgs) {
			return infra("touch: no package %d", op.K)
		}
		p := m.Pkgs[op.K]
		for fi, f := range p.Files {
			if f.Name == op.Path {
				x.touches++
				content := m.FileSource(op.K, f, fi == 0) + fmt.Sprintf("\n// edit %d %s\n", x.touches, op.Note)
				if op.SameSize {
					content = m.FileSource(op.K, f, fi == 0) + fmt.Sprintf("\n// edit %06d\n", x.touches)
				}
				if op.How == "break-types" {
					// the edit leaves a type error behind (a reference to something that does not exist yet)
					content += fmt.Sprintf("\nvar _ = notDeclaredAnywhere%d\n", x.touches)
					x.Env.Stats.Add("fault/type-error-planted", 1)
				}
				if err := x.writeWithClock(filepath.Join(x.Root, p.Dir, f.Name), []byte(content), op.MTime); err != nil {
					return infra("touch: %v", err)
				}
			}
		}
		x.Env.Stats.Add("op/edit", 1)
	case "retag":
		// the tags of one declaration change in place (same line count, so no position moves); from
		// now on the expectations follow the new spec
		if op.K < 0 || op.K >= len(m.Pkgs) {
			return infra("retag: no package %d", op.K)
		}
		p := m.Pkgs[op.K]
		for fi, f := range p.Files {
			var visit func(ds []*Decl) bool
			visit = func(ds []*Decl) bool {
				for _, d := range ds {
					if d.Kind == "grouped" {
						if visit(d.Group) {
							return true
						}
					} else if d.Name == op.Path {
						d.Tags = op.Tags
						return true
					}
				}
				return false
			}
			if visit(f.Decls) {
				if err := x.writeWithClock(filepath.Join(x.Root, p.Dir, f.Name), []byte(m.FileSource(op.K, f, fi == 0)), op.MTime); err != nil {
					return infra("retag: %v", err)
				}
			}
		}
		x.Env.Stats.Add("op/retag", 1)
	case "delete":
		_ = os.Remove(filepath.Join(x.Root, op.Path))
		x.Env.Stats.Add("op/delete", 1)
	case "delsum":
		_ = os.Remove(filepath.Join(x.Root, "gengo.sum"))
		x.Env.Stats.Add("fault/sum-delete", 1)
	case "corruptsum":
		x.corruptSum(op)
	case "unhashable":
		// a dangling symlink (e.g. an editor lock file) in a package directory
		p := filepath.Join(x.Root, op.Path)
		_ = os.Remove(p)
		if err := os.Symlink("user@host.12345:1700000000", p); err != nil {
			return infra("unhashable: %v", err)
		}
		x.Env.Stats.Add("fault/unhashable", 1)
	case "linkout":
		// generated files kept elsewhere and linked into the package (a shared tree, a link farm): every
		// generated file of package K that is a regular file moves to _linked/ and a relative link takes its place
		if op.K < 0 || op.K >= len(m.Pkgs) {
			return infra("linkout: no package %d", op.K)
		}
		dir := x.pkgDir(op.K)
		ents, _ := os.ReadDir(dir)
		for _, e := range ents {
			if !e.Type().IsRegular() || !strings.HasPrefix(e.Name(), x.Sc.Base+".") || !strings.HasSuffix(e.Name(), ".go") {
				continue
			}
			side := filepath.Join(x.Root, "_linked")
			if err := os.MkdirAll(side, 0o755); err != nil {
				return infra("linkout: %v", err)
			}
			target := filepath.Join(side, fmt.Sprintf("p%d_%s", op.K, e.Name()))
			if err := os.Rename(filepath.Join(dir, e.Name()), target); err != nil {
				return infra("linkout: %v", err)
			}
			// (the copy kept elsewhere carries a note of its own: whoever writes through the link changes it,
			// even when the bytes gengo generates are the same as before)
			if fh, err := os.OpenFile(target, os.O_APPEND|os.O_WRONLY, 0); err == nil {
				_, _ = fh.WriteString("\n// kept in _linked/ and linked into the package\n")
				_ = fh.Close()
			}
			rel, err := filepath.Rel(dir, target)
			if err != nil {
				return infra("linkout: %v", err)
			}
			if err := os.Symlink(rel, filepath.Join(dir, e.Name())); err != nil {
				return infra("linkout: %v", err)
			}
			x.Env.Stats.Add("op/output-replaced-by-symlink", 1)
		}
	case "protect", "outclock":
		// the generated files of package K become read-only (a read-only checkout, files copied out of the
		// module cache, chmod -R a-w), or their clocks say "future"/"old" (written by a machine whose clock
		// is ahead, restored from an archive)
		if op.K < 0 || op.K >= len(m.Pkgs) {
			return infra("%s: no package %d", op.Kind, op.K)
		}
		dir := x.pkgDir(op.K)
		ents, _ := os.ReadDir(dir)
		for _, e := range ents {
			if !e.Type().IsRegular() || !strings.HasPrefix(e.Name(), x.Sc.Base+".") {
				continue
			}
			p := filepath.Join(dir, e.Name())
			if op.Kind == "protect" {
				if err := os.Chmod(p, 0o444); err != nil {
					return infra("protect: %v", err)
				}
				x.Env.Stats.Add("fault/output-read-only", 1)
				continue
			}
			x.clockTicks++
			t := time.Date(2037, 2, 3, 4, 5, 6, 0, time.UTC).Add(time.Duration(x.clockTicks) * time.Second)
			if op.How == "old" {
				t = time.Date(2001, 2, 3, 4, 5, 6, 0, time.UTC).Add(time.Duration(x.clockTicks) * time.Second)
			}
			if err := os.Chtimes(p, t, t); err != nil {
				return infra("outclock: %v", err)
			}
			x.Env.Stats.Add("fault/clock-output-"+map[bool]string{true: "old", false: "future"}[op.How == "old"], 1)
		}
	case "break":
		// make the load fail: a syntax error in a source file or a broken go.mod
		p := filepath.Join(x.Root, op.Path)
		if err := os.WriteFile(p, []byte(op.Content), 0o644); err != nil {
			return infra("break: %v", err)
		}
		x.loadBroken = true
		x.Env.Stats.Add("fault/load-fail-planted", 1)
	case "unbreak":
		p := filepath.Join(x.Root, op.Path)
		if err := os.WriteFile(p, []byte(op.Content), 0o644); err != nil {
			return infra("unbreak: %v", err)
		}
		x.loadBroken = false
	case "converge":
		return x.doConverge(op)
	case "fixedpoint":
		return x.doFixedPoint(op)
	case "warm":
		return x.doWarm(op)
	default:
		return infra("unknown op %q", op.Kind)
	}
	_ = m
	x.Model.AfterExternal(x.Root)
	return nil
}

func (x *Exec) corruptSum(op Op) {
	p := filepath.Join(x.Root, "gengo.sum")
	data, err := os.ReadFile(p)
	if err != nil {
		return
	}
	lines := strings.SplitAfter(string(data), "\n")
	if len(lines) > 0 && lines[len(lines)-1] == "" {
		lines = lines[:len(lines)-1]
	}
	k := 0
	if len(lines) > 0 {
		k = ((op.K % len(lines)) + len(lines)) % len(lines)
	}
	out := data
	switch op.How {
	case "drop-line":
		if len(lines) > 0 {
			out = []byte(strings.Join(append(append([]string{}, lines[:k]...), lines[k+1:]...), ""))
		}
	case "alter-hash":
		if len(lines) > 0 {
			l := []byte(lines[k])
			if i := strings.Index(lines[k], " h1:"); i >= 0 && i+6 < len(l) {
				c := l[i+5]
				if c == 'A' {
					l[i+5] = 'B'
				} else {
					l[i+5] = 'A'
				}
			}
			lines[k] = string(l)
			out = []byte(strings.Join(lines, ""))
		}
	case "truncate":
		if len(data) > 0 {
			out = data[:((op.K%len(data))+len(data))%len(data)]
		}
	case "garbage":
		out = append(append([]byte{}, data...), []byte("\x00\xff garbage line without sense\n\n  \n")...)
	case "swap-hashes":
		if len(lines) >= 2 {
			a, b := k, (k+1)%len(lines)
			fa, fb := strings.Fields(lines[a]), strings.Fields(lines[b])
			if len(fa) >= 2 && len(fb) >= 2 {
				lines[a] = fa[0] + " " + fb[1] + "\n"
				lines[b] = fb[0] + " " + fa[1] + "\n"
				out = []byte(strings.Join(lines, ""))
			}
		}
	case "crlf":
		out = []byte(strings.ReplaceAll(string(data), "\n", "\r\n"))
	case "dup-line-stale":
		// a second line for the same package carrying another hash, placed last
		if len(lines) > 0 {
			f := strings.Fields(lines[k])
			if len(f) >= 2 {
				out = append(append([]byte{}, data...), []byte(f[0]+" h1:AAAAAAAAAAAAAAAAAAAAAAAAAAAAAAAAAAAAAAAAAAA=\n")...)
			}
		}
	case "empty":
		out = []byte{}
	}
	_ = os.WriteFile(p, out, 0o644)
	x.Env.Stats.Add("fault/sum-corrupt/"+op.How, 1)
}

// doRun executes a run op with every per-step oracle.
func (x *Exec) doRun(op Op) (*StepRecord, error) {
	m := x.Sc.Module
	run := op.Run
	rec := &StepRecord{Op: op, Executed: map[string]bool{}, Hload: map[string]string{}, Content: map[string]map[string]string{}}
	x.Steps = append(x.Steps, rec)

	x.noteGoFiles(run.Args.Base)
	pre, err := TakeSnapshot(x.Root)
	if err != nil {
		return nil, infra("snapshot: %v", err)
	}
	rec.Pre = pre
	if data, err := os.ReadFile(filepath.Join(x.Root, "gengo.sum")); err == nil {
		rec.PreSum, rec.HadSum = data, true
	}
	rec.Direct = ResolveEntrypoints(m, run.Args.Entrypoint)
	rec.Local = m.Local(rec.Direct)
	for _, pi := range rec.Local {
		ip := m.ImportPath(pi)
		rec.Content[ip] = DirFiles(x.pkgDir(pi))
		if h, ok := HashDir(x.pkgDir(pi)); ok {
			rec.Hload[ip] = h
			x.Model.Observe(ip, h, rec.Content[ip])
		}
	}

	w, err := x.workerWith(run.Fresh, run.GoMaxProcs)
	if err != nil {
		return nil, err
	}
	if run.Sched.Clock != "" {
		x.Env.Stats.Add("fault/simulated-clock/"+run.Sched.Clock, 1)
	}
	second := ""
	if run.SecondContext {
		tmp, err := x.Env.NewWorld()
		if err != nil {
			return nil, infra("second context: %v", err)
		}
		defer os.RemoveAll(tmp)
		second = filepath.Join(tmp, "m")
		if err := CopyTree(x.Root, second); err != nil {
			return nil, infra("second context: %v", err)
		}
		x.Env.Stats.Add("probe/two-contexts-alive-at-once", 1)
	}
	cwd := ""
	if run.Cwd != "" {
		cwd = filepath.Join(x.Root, run.Cwd)
		x.Env.Stats.Add("probe/run-from-a-package-directory", 1)
	}
	req := &proto.RunReq{Root: x.Root, Cwd: cwd, Args: run.Args, Gens: run.Gens, Sched: run.Sched, Faults: run.Faults, ReadSum: run.Args.All, RetrySameExecutor: run.RetrySameExecutor,
		FirstGlobals: run.FirstGlobals, HasFirstGlobals: run.HasFirstGlobals, FirstGens: run.FirstGens, SecondContext: second,
		KeepExecutor: run.KeepExecutor, ReuseExecutor: run.ReuseExecutor, ViaRegistry: run.ViaRegistry}
	for i := range req.Faults {
		if req.Faults[i].Kind != "" {
			req.Faults[i].ExecSeq = -1
		}
	}
	resp, err := w.Do(req, x.Env.Timeout)
	x.Env.Stats.Add("runs", 1)
	if x.workerDied(err) {
		return rec, nil
	}
	var panicErr *wk.PanicError
	if err != nil && errors.As(err, &panicErr) {
		// the process died from a panic the worker could not recover (it happened on another goroutine)
		x.W = nil
		planned := false
		for _, f := range run.Faults {
			if f.Do == "gen-panic" {
				planned = true
			}
		}
		if !planned {
			x.wedged = true
			x.violate(x.Sc.Property, "X0", "panic", "the process crashed: "+panicLine(panicErr.Report), nil)
			return rec, nil
		}
		// an injected panic: a real process death; deferred functions of the panicking goroutine ran
		err = wk.ErrKilled
		if rec.Op.How == "" {
			rec.Op.How = "kill-before-save"
		}
		x.Env.Stats.Add("fault/panic-fired", 1)
	}
	if err != nil {
		if errors.Is(err, wk.ErrKilled) {
			rec.Killed = true
			x.W = nil
			x.Env.Stats.Add("fault/kill-fired", 1)
			for _, f := range run.Faults {
				if strings.HasPrefix(f.Do, "signal:") {
					x.Env.Stats.Add("fault/died-from-"+f.Do, 1)
				}
			}
		} else {
			x.W = nil
			return nil, infra("variant %s step %d: %v", x.Variant, x.step, err)
		}
	}
	if resp != nil {
		// error texts carry absolute paths of the scratch world: make them independent of where it lives
		resp.LoadErr = strings.ReplaceAll(resp.LoadErr, x.Root, "$ROOT")
		resp.ExecErr = strings.ReplaceAll(resp.ExecErr, x.Root, "$ROOT")
		resp.Panic = strings.ReplaceAll(resp.Panic, x.Root, "$ROOT")
	}
	rec.Resp = resp
	post, err := TakeSnapshot(x.Root)
	if err != nil {
		return nil, infra("snapshot: %v", err)
	}
	rec.Post = post
	if resp != nil {
		x.Env.Stats.Add("events", int64(len(resp.Events)))
		x.Env.Stats.NoteSites(resp)
		for _, f := range resp.Fired {
			parts := strings.SplitN(f, ":", 3)
			if len(parts) == 3 {
				do := parts[2]
				if i := strings.IndexByte(do, ':'); i >= 0 {
					do = do[:i]
				}
				x.Env.Stats.Add("fault/"+parts[1]+"/"+do, 1)
			}
		}
		for _, e := range resp.Events {
			if e.Kind == "new" && e.Gen == "probe" {
				rec.Executed[e.Pkg] = true
			}
		}
		x.Env.Stats.Trace(resp.Events)
	}
	if run.HasFirstGlobals {
		x.twoPass = true
	}
	if resp != nil && resp.ReusedExecutor && x.keptRec != nil {
		// what this run generated from is what the executor loaded, not what the tree held when Execute
		// was called again (the model's "generated completely from this content" is about the former)
		rec.Content, rec.Hload = x.keptRec.Content, x.keptRec.Hload
	} else if run.KeepExecutor {
		x.keptRec = rec
	}
	if resp != nil && resp.ReusedExecutor {
		// the executor was loaded before the previous run wrote its files: what it believes about directory
		// hashes is older than the tree, so the cache oracles (C08) do not describe this run
		x.reusedRun = true
		x.Env.Stats.Add("probe/execute-on-a-kept-executor", 1)
	}
	x.checkRun(rec)
	x.reusedRun = false
	return rec, nil
}

// workerDied handles a worker that the race detector stopped: a violation, not infrastructure trouble.
func (x *Exec) workerDied(err error) bool {
	var raceErr *wk.RaceError
	if err != nil && errors.As(err, &raceErr) {
		// the race leg: gengo (or a generator) accessed memory from two goroutines without synchronisation
		x.W = nil
		x.wedged = true
		if dir := os.Getenv("VERIF_KEEP_RACE_REPORTS"); dir != "" {
			_ = os.MkdirAll(dir, 0o755)
			_ = os.WriteFile(filepath.Join(dir, fmt.Sprintf("race-%d.txt", time.Now().UnixNano())), []byte(raceErr.Report), 0o644) // debugging aid
		}
		x.violate(x.Sc.Property, "R1", "data-race", raceSummary(raceErr.Report), nil)
		return true
	}
	return false
}

func panicLine(report string) string {
	for _, l := range strings.Split(report, "\n") {
		if strings.HasPrefix(l, "panic: ") || strings.HasPrefix(l, "fatal error: ") {
			return firstLine(l)
		}
	}
	return firstLine(report)
}

// doConverge repeats the last run (fault-free) until a run executes no package
// and leaves the tree unchanged (C08-S3 / C02-E4).
func (x *Exec) doConverge(op Op) error {
	var last *StepRecord
	for i := len(x.Steps) - 1; i >= 0; i-- {
		if x.Steps[i].Op.Kind == "run" {
			last = x.Steps[i]
			break
		}
	}
	if last == nil {
		return nil
	}
	limit := op.K
	if limit <= 0 {
		limit = 3
	}
	base := *last.Op.Run
	base.Faults = nil
	forced := base.Args.Force
	base.Args.Force = false
	for i := 0; i < limit; i++ {
		r := base
		r.Fresh = i%2 == 0
		if i == 0 && op.How == "recover" {
			// recovery: the user runs the SAME command again (a forced run that crashed is re-run
			// forced - the cache knows nothing about generator versions); then unforced runs converge
			r.Args.Force = forced
		}
		rec, err := x.doRun(Op{Kind: "run", Run: &r, Note: "converge"})
		if err != nil {
			return err
		}
		if rec.Resp == nil || rec.Resp.LoadErr != "" || rec.Resp.ExecErr != "" || rec.Resp.Panic != "" {
			cls, facts := classifyRecoveryFailure(rec)
			prop, oracle := "C08", "S3"
			if op.How == "recover" {
				prop, oracle = "C02", "E4"
			}
			x.violate(prop, oracle, cls, "repeating the run fault-free does not succeed: "+respErr(rec.Resp), facts)
			return nil
		}
		// a package whose directory cannot be hashed has no cache entry to
		// converge to: regenerating it every time is the safe behaviour
		hashable := 0
		for p := range rec.Executed {
			if _, ok := rec.Hload[p]; ok {
				hashable++
			}
		}
		if hashable == 0 && len(Diff(rec.Pre, rec.Post)) == 0 {
			x.Env.Stats.Add("probe/converged", 1)
			return nil
		}
	}
	prop, oracle := "C08", "S3"
	if op.How == "recover" {
		prop, oracle = "C02", "E4"
	}
	x.violate(prop, oracle, "no-convergence", fmt.Sprintf("after %d repeated fault-free runs packages are still regenerated or files still change", limit), nil)
	return nil
}

// doFixedPoint: C04-D4. Running again on the result of a run changes no
// generated file; a third run changes nothing at all.
func (x *Exec) doFixedPoint(op Op) error {
	var last *StepRecord
	for i := len(x.Steps) - 1; i >= 0; i-- {
		if x.Steps[i].Op.Kind == "run" {
			last = x.Steps[i]
			break
		}
	}
	if last == nil || last.Resp == nil || last.Resp.ExecErr != "" || last.Resp.LoadErr != "" {
		return nil
	}
	base := *last.Op.Run
	base.Faults = nil
	for i := 0; i < 2; i++ {
		r := base
		r.Fresh = i == 0
		rec, err := x.doRun(Op{Kind: "run", Run: &r, Note: "fixedpoint"})
		if err != nil {
			return err
		}
		if rec.Resp == nil || rec.Resp.ExecErr != "" || rec.Resp.LoadErr != "" || rec.Resp.Panic != "" {
			x.violate("C04", "D4", "rerun-fails", respErr(rec.Resp), map[string]string{"error": respErr(rec.Resp)})
			return nil
		}
		for _, d := range Diff(rec.Pre, rec.Post) {
			p := DiffPath(d)
			if i == 0 && p == "gengo.sum" {
				continue // the second run records the hashes of the tree that now holds the outputs
			}
			class := "second-run-changes-generated-file"
			if i == 1 {
				class = "third-run-changes-something"
			}
			// discriminators for known findings: which generator's file moved, and whether its package
			// depends on other packages of the module (whose API the first run has just extended)
			facts := map[string]string{"gens": genNames(r.Gens), "changed_gen": "", "pkg_has_local_imports": "false"}
			bn := filepath.Base(p)
			if strings.HasPrefix(bn, r.Args.Base+".") && strings.HasSuffix(bn, ".go") {
				facts["changed_gen"] = strings.TrimSuffix(strings.TrimPrefix(bn, r.Args.Base+"."), ".go")
			}
			for _, ps := range x.Sc.Module.Pkgs {
				if filepath.Clean(ps.Dir) == filepath.Clean(filepath.Dir(p)) && len(ps.Imports) > 0 {
					facts["pkg_has_local_imports"] = "true"
				}
			}
			x.violate("C04", "D4", class, d, facts)
			return nil
		}
	}
	x.Env.Stats.Add("probe/fixed-point-reached", 1)
	return nil
}

func genNames(gs []proto.GenScript) string {
	var n []string
	for _, g := range gs {
		if g.Impl != "probe" {
			n = append(n, g.Impl+":"+g.Name)
		}
	}
	return strings.Join(n, ",")
}

// doWarm executes op.Run in a scratch copy of the world inside the current
// worker process, so that the next run is the n-th of its process (C04-D3).
func (x *Exec) doWarm(op Op) error {
	tmp, err := x.Env.NewWorld()
	if err != nil {
		return infra("warm: %v", err)
	}
	defer os.RemoveAll(tmp)
	troot := filepath.Join(tmp, "m")
	if err := CopyTree(x.Root, troot); err != nil {
		return infra("warm: %v", err)
	}
	w, err := x.worker(op.Run.Fresh)
	if err != nil {
		return err
	}
	req := &proto.RunReq{Root: troot, Args: op.Run.Args, Gens: op.Run.Gens, Sched: op.Run.Sched, NoEvents: true}
	if _, err := w.Do(req, x.Env.Timeout); err != nil {
		if x.workerDied(err) {
			return nil
		}
		x.W = nil
		return infra("warm run: %v", err)
	}
	x.Env.Stats.Add("runs", 1)
	x.Env.Stats.Add("probe/run-in-warm-process", 1)
	return nil
}

func respErr(r *proto.RunResp) string {
	if r == nil {
		return "worker killed"
	}
	switch {
	case r.Panic != "":
		return "panic: " + firstLine(r.Panic)
	case r.LoadErr != "":
		return "load: " + firstLine(r.LoadErr)
	case r.ExecErr != "":
		return "execute: " + firstLine(r.ExecErr)
	}
	return ""
}

func firstLine(s string) string {
	if i := strings.IndexByte(s, '\n'); i >= 0 {
		s = s[:i]
	}
	if len(s) > 300 {
		s = s[:300]
	}
	return s
}

func classifyRecoveryFailure(rec *StepRecord) (string, map[string]string) {
	e := respErr(rec.Resp)
	facts := map[string]string{"error": e}
	switch {
	case rec.Resp != nil && rec.Resp.LoadErr != "":
		return "wedged-load-fails", facts
	case rec.Resp != nil && rec.Resp.Panic != "":
		return "recovery-panics", facts
	}
	return "recovery-fails", facts
}

// ---- statistics shared by all simulations -------------------------------------

// Stats collects the counters the evidence file reports.
type Stats struct {
	mu       sync.Mutex
	Counters map[string]int64
	Traces   map[uint64]bool
	Sites    map[string]*siteAgg
	Finger   map[string]bool
	Samples  []any
}

type siteAgg struct {
	Visits, Multi, Uncontrolled int64
}

func NewStats() *Stats {
	return &Stats{Counters: map[string]int64{}, Traces: map[uint64]bool{}, Sites: map[string]*siteAgg{}, Finger: map[string]bool{}}
}

func (s *Stats) Add(k string, n int64) {
	s.mu.Lock()
	s.Counters[k] += n
	s.mu.Unlock()
}

func (s *Stats) Get(k string) int64 {
	s.mu.Lock()
	defer s.mu.Unlock()
	return s.Counters[k]
}

// Fingerprint counts a distinct non-trivial case.
func (s *Stats) Fingerprint(f string) {
	s.mu.Lock()
	s.Finger[f] = true
	s.mu.Unlock()
}

func (s *Stats) Sample(v any, max int) {
	s.mu.Lock()
	if len(s.Samples) < max {
		s.Samples = append(s.Samples, v)
	}
	s.mu.Unlock()
}

// Trace records the hash of an Execute-phase event trace (the "distinct
// interleavings" measure).
func (s *Stats) Trace(evs []proto.Event) {
	var h uint64 = 1469598103934665603
	mix := func(str string) {
		for i := 0; i < len(str); i++ {
			h ^= uint64(str[i])
			h *= 1099511628211
		}
		h ^= 0xff
		h *= 1099511628211
	}
	n := 0
	for _, e := range evs {
		if e.Exec < 0 {
			continue
		}
		n++
		mix(e.Kind)
		mix(e.Gen)
		mix(e.Pkg)
		mix(e.Type)
		mix(e.Path)
		mix(e.Fault)
	}
	if n == 0 {
		return
	}
	s.mu.Lock()
	s.Traces[h] = true
	s.mu.Unlock()
}

// TraceInts records a schedule (list of goroutine ids) as a distinct trace.
func (s *Stats) TraceInts(xs []int) {
	var h uint64 = 1469598103934665603
	for _, x := range xs {
		h ^= uint64(x) + 1
		h *= 1099511628211
	}
	s.mu.Lock()
	s.Traces[h] = true
	s.mu.Unlock()
}

func (s *Stats) NoteSites(r *proto.RunResp) {
	s.mu.Lock()
	defer s.mu.Unlock()
	for k, v := range r.Sites {
		a := s.Sites[k]
		if a == nil {
			a = &siteAgg{}
			s.Sites[k] = a
		}
		a.Visits += int64(v.Visits)
		a.Multi += int64(v.MultiVisits)
		a.Uncontrolled += int64(v.Uncontrolled)
	}
}

func sortedKeys[V any](m map[string]V) []string {
	out := make([]string, 0, len(m))
	for k := range m {
		out = append(out, k)
	}
	sort.Strings(out)
	return out
}
