package sim

import (
	"encoding/json"
	"fmt"
	"io"
	"os"
	"path/filepath"
	"sort"
	"strings"
	"sync"
	"sync/atomic"
	"time"
)

// CheckCtx is the state of one check invocation (one property, one tier).
type CheckCtx struct {
	Prop     string
	Tier     string
	Seed     int64
	Env      *Env
	Par      int
	Deadline time.Time
	// MinSims / HardDeadline: see Expired
	MinSims      int
	HardDeadline time.Time
	started      atomic.Int64
	MaxSims      int
	Findings     *Findings
	Out          io.Writer
	ReplayDir    string
	VerifDir     string

	// RaceSamples: how many scenarios are re-executed with the -race worker after the exploration.
	RaceSamples int
	// RaceBudget: no new scenario is started in the race leg after this long (0: no limit).
	RaceBudget  time.Duration
	raceSamples []raceSample
	inRaceLeg   bool

	mu       sync.Mutex
	found    map[string]*foundViolation
	order    []string
	infraErr error
	sims     atomic.Int64
	scens    atomic.Int64
	other    map[string]int
}

type foundViolation struct {
	V        Violation
	Scenario *Scenario
	SimIndex int
	Count    int
	// Alts: scenarios of other simulations that showed the same class; tried when the first one does
	// not replay (a changed tree may make only some worlds - e.g. single-CPU workers - repeatable).
	Alts []altScenario
}

type altScenario struct {
	V        Violation
	Scenario *Scenario
	SimIndex int
}

// Expired reports whether the time budget is used up.
// Expired: the wall-clock budget is used up. On a busy machine the budget of the quick tier would cut the batch
// short and with it what the tier covers, so there the budget only counts once MinSims simulations have been
// started; HardDeadline bounds that.
func (c *CheckCtx) Expired() bool {
	now := time.Now()
	if !now.After(c.Deadline) {
		return false
	}
	return int(c.started.Load()) >= c.MinSims || c.HardDeadline.IsZero() || now.After(c.HardDeadline)
}

// RunScenario executes sc, records the violations of this check's property and
// returns the outcome.
func (c *CheckCtx) RunScenario(sc *Scenario, simIndex int) (*Outcome, error) {
	sc.Property = c.Prop
	c.mu.Lock()
	if !c.inRaceLeg && len(c.raceSamples) < c.RaceSamples && sc.Kind != "infl" {
		c.raceSamples = append(c.raceSamples, raceSample{sc, simIndex})
	}
	c.mu.Unlock()
	if d := os.Getenv("VERIF_DUMP_DIR"); d != "" {
		writeJSON(filepath.Join(d, fmt.Sprintf("%s-%d-%d.json", c.Prop, simIndex, c.scens.Load())), sc)
	}
	c.scens.Add(1)
	out, err := ExecuteScenario(c.Env, sc)
	if err != nil {
		c.mu.Lock()
		if c.infraErr == nil {
			c.infraErr = err
		}
		c.mu.Unlock()
		return nil, err
	}
	c.mu.Lock()
	defer c.mu.Unlock()
	if f := os.Getenv("VERIF_DIGEST_FILE"); f != "" && !c.inRaceLeg {
		// determinism self-test: one line per executed scenario (the race leg re-executes whichever scenarios
		// arrived first, with real goroutines: neither its selection nor its schedule is the simulator's)
		if fh, err := os.OpenFile(f, os.O_APPEND|os.O_CREATE|os.O_WRONLY, 0o644); err == nil {
			fmt.Fprintf(fh, "%s %d %s %s\n", c.Prop, simIndex, scenarioName(sc), out.Digest)
			fh.Close()
		}
	}
	for _, v := range out.Violations {
		if v.Property != c.Prop {
			if c.other == nil {
				c.other = map[string]int{}
			}
			c.other[v.Key()]++
			if os.Getenv("VERIF_SHOW_OTHER") != "" {
				fmt.Fprintf(os.Stderr, "other: sim %d %s variant=%s step=%d: %s\n", simIndex, v.Key(), v.Variant, v.Step, v.Detail)
			}
			continue
		}
		k := v.Key()
		if f, ok := c.found[k]; ok {
			f.Count++
			if simIndex != f.SimIndex && len(f.Alts) < 6 {
				dup := false
				for _, a := range f.Alts {
					if a.SimIndex == simIndex {
						dup = true
					}
				}
				if !dup {
					f.Alts = append(f.Alts, altScenario{v, sc, simIndex})
				}
			}
			if simIndex < f.SimIndex {
				// report the lowest simulation index: independent of worker timing
				f.Alts = append(f.Alts, altScenario{f.V, f.Scenario, f.SimIndex})
				f.V, f.Scenario, f.SimIndex = v, sc, simIndex
			}
			continue
		}
		if c.found == nil {
			c.found = map[string]*foundViolation{}
		}
		c.found[k] = &foundViolation{V: v, Scenario: sc, SimIndex: simIndex, Count: 1}
		c.order = append(c.order, k)
	}
	return out, nil
}

func scenarioName(sc *Scenario) string {
	n := sc.Kind
	for i, v := range sc.Variants {
		if i < 3 {
			n += "/" + strings.ReplaceAll(v.Name, " ", "_")
		}
	}
	if sc.Infl != nil && sc.Infl.Race {
		n += "/race"
	}
	return n
}

type raceSample struct {
	sc  *Scenario
	sim int
}

// RaceLeg re-executes the first scenarios of the exploration with the worker built under the race
// detector (GOMAXPROCS 16). Schedules of real goroutines are not the simulator's to choose, so this
// leg samples: a report is a violation (class data-race), silence proves nothing.
func (c *CheckCtx) RaceLeg() {
	if c.Env.RaceWorkerBin == "" || len(c.raceSamples) == 0 {
		return
	}
	c.mu.Lock()
	c.inRaceLeg = true
	c.mu.Unlock()
	env := *c.Env
	env.WorkerBin = c.Env.RaceWorkerBin
	env.GoMaxProcs = 16
	env.Timeout = 4 * c.Env.Timeout
	saved := c.Env
	c.Env = &env
	defer func() { c.Env = saved }()
	var wg sync.WaitGroup
	sem := make(chan struct{}, c.Par)
	stop := time.Now().Add(c.RaceBudget)
	for _, rs := range c.raceSamples {
		if c.RaceBudget > 0 && time.Now().After(stop) {
			break
		}
		wg.Add(1)
		sem <- struct{}{}
		go func(rs raceSample) {
			defer wg.Done()
			defer func() { <-sem }()
			sc := cloneScenario(rs.sc)
			if _, err := c.RunScenario(sc, rs.sim); err != nil {
				return
			}
			c.Env.Stats.Add("race-leg-scenarios", 1)
		}(rs)
	}
	wg.Wait()
}

// SimFunc runs simulation i.
type SimFunc func(c *CheckCtx, i int, r *Rng) error

// Explore runs simulations 0..MaxSims-1 in parallel until the deadline.
func (c *CheckCtx) Explore(label string, f SimFunc) {
	var next atomic.Int64
	var wg sync.WaitGroup
	for w := 0; w < c.Par; w++ {
		wg.Add(1)
		go func() {
			defer wg.Done()
			for {
				if c.Expired() {
					return
				}
				i := int(next.Add(1) - 1)
				if i >= c.MaxSims {
					return
				}
				c.started.Add(1)
				if only := os.Getenv("VERIF_ONLY"); only != "" && only != fmt.Sprint(i) {
					continue
				}
				c.mu.Lock()
				stop := c.infraErr != nil
				c.mu.Unlock()
				if stop {
					return
				}
				r := NewRng(c.Seed, c.Prop+"/"+label, i)
				t0 := time.Now()
				err := f(c, i, r)
				if os.Getenv("VERIF_DEBUG") != "" {
					fmt.Fprintf(os.Stderr, "sim %s/%d took %v\n", label, i, time.Since(t0))
				}
				if err != nil {
					c.mu.Lock()
					if c.infraErr == nil {
						c.infraErr = err
					}
					c.mu.Unlock()
					return
				}
				c.sims.Add(1)
			}
		}()
	}
	wg.Wait()
}

// ReplayFile is the on-disk format of a violation.
type ReplayFile struct {
	Version   int       `json:"version"`
	Property  string    `json:"property"`
	Oracle    string    `json:"oracle"`
	Class     string    `json:"class"`
	Detail    string    `json:"detail"`
	Seed      int64     `json:"seed"`
	SimIndex  int       `json:"sim_index"`
	Minimised bool      `json:"minimised"`
	Original  string    `json:"original,omitempty"`
	Scenario  *Scenario `json:"scenario"`
}

// Finish minimises, replays and reports what was found. It returns the exit
// code: 0 clean (or only known findings), 1 violations, 2 infrastructure.
func (c *CheckCtx) Finish(wall time.Duration) int {
	if c.infraErr != nil {
		fmt.Fprintf(c.Out, "ERROR property=%s %v\n", c.Prop, c.infraErr)
		return 2
	}
	exit := 0
	reported := 0
	knownPrinted := map[string]bool{}
	keys := append([]string{}, c.order...)
	sort.Strings(keys)
	// nondeterminism under identical schedules first: it explains why other classes may not replay
	sort.SliceStable(keys, func(a, b int) bool {
		return strings.HasSuffix(keys[a], "/control") && !strings.HasSuffix(keys[b], "/control")
	})
	nondet := false
	var unreproduced []string
	nViol := 0
	for _, k := range keys {
		f := c.found[k]
		if kf := c.Findings.Match(f.V); kf != nil {
			if !knownPrinted[kf.ID] {
				knownPrinted[kf.ID] = true
				fmt.Fprintf(c.Out, "KNOWN-FINDING: property=%s %s [%s/%s seen %dx]\n", c.Prop, kf.What, f.V.Oracle, f.V.Class, f.Count)
			}
			continue
		}
		nViol++
		if reported >= 8 {
			continue
		}
		reported++
		// confirm by immediate replay, then minimise
		sc := f.Scenario
		// A difference between two executions under the SAME schedule (class .../control) is
		// nondeterminism that no seam owns: it is a violation by itself but replays only
		// statistically, so it gets several attempts and is not minimised step by step.
		uncontrolled := strings.HasSuffix(f.V.Class, "/control") || f.V.Class == "data-race"
		// every other violation is expected to replay at once; a few more attempts are granted because a
		// changed tree may bring nondeterminism of its own (sync.Pool, goroutines) that no seam owns -
		// the report then says on which attempt it reproduced
		attempts := 5
		if uncontrolled {
			attempts = 20
		}
		firstTry := true
		execEnv := c.Env
		if f.V.Class == "data-race" && c.Env.RaceWorkerBin != "" {
			e := *c.Env
			e.WorkerBin, e.GoMaxProcs, e.Timeout = c.Env.RaceWorkerBin, 16, 4*c.Env.Timeout
			execEnv = &e
		}
		reproduced := 0
		if f.V.Class == "data-race" {
			// a race needs real goroutines to meet: only the variant that raced is kept (that is a
			// reduction that needs no reproduction), and the attempts run side by side, which also
			// gives the scheduler the load under which the race was seen
			sc = onlyVariant(sc, f.V.Variant)
			if n := replayParallel(execEnv, sc, k, 5, 8); n > 0 {
				reproduced++
				firstTry = n == 1
			}
			attempts = 0
		}
		for a := 0; a < attempts && reproduced == 0; a++ {
			out, err := ExecuteScenario(execEnv, sc)
			if err != nil {
				fmt.Fprintf(c.Out, "ERROR property=%s replay of %s failed: %v\n", c.Prop, k, err)
				return 2
			}
			if hasKey(out.Violations, k) {
				reproduced++
				firstTry = a == 0
			}
		}
		if reproduced == 0 {
			// the same class was seen in other simulations: one of those worlds may replay
			sort.Slice(f.Alts, func(a, b int) bool { return f.Alts[a].SimIndex < f.Alts[b].SimIndex })
			for _, alt := range f.Alts {
				if alt.SimIndex == f.SimIndex {
					continue
				}
				if f.V.Class == "data-race" {
					asc := onlyVariant(alt.Scenario, alt.V.Variant)
					if replayParallel(execEnv, asc, k, 3, 8) > 0 {
						reproduced++
						firstTry = false
						f.V, f.Scenario, f.SimIndex = alt.V, asc, alt.SimIndex
						sc = asc
					}
				}
				for a := 0; a < attempts && reproduced == 0; a++ {
					out, err := ExecuteScenario(execEnv, alt.Scenario)
					if err == nil && hasKey(out.Violations, k) {
						reproduced++
						firstTry = a == 0
						f.V, f.Scenario, f.SimIndex = alt.V, alt.Scenario, alt.SimIndex
						sc = alt.Scenario
					}
				}
				if reproduced > 0 {
					break
				}
			}
		}
		if reproduced == 0 {
			if nondet {
				fmt.Fprintf(c.Out, "  (also seen %dx, not replayable because of the nondeterminism reported above: %s: %s)\n", f.Count, k, f.V.Detail)
				reported--
				nViol--
				continue
			}
			// decided at the end: next to a confirmed violation this is a footnote, on its own it is
			// infrastructure trouble (exit 2) - never a VIOLATION, never a silent pass
			unreproduced = append(unreproduced, fmt.Sprintf("%s seen %dx, did not reproduce in %d immediate replays (first: %s)", k, f.Count, attempts, f.V.Detail))
			reported--
			nViol--
			continue
		}
		if uncontrolled {
			nondet = true
		}
		_ = os.MkdirAll(c.ReplayDir, 0o755)
		name := fmt.Sprintf("%s-%s-%s-%d-%d", c.Prop, f.V.Oracle, sanitize(f.V.Class), c.Seed, f.SimIndex)
		if len(name) > 120 {
			name = name[:120]
		}
		orig := filepath.Join(c.ReplayDir, name+".orig.json")
		writeJSON(orig, &ReplayFile{Version: 1, Property: c.Prop, Oracle: f.V.Oracle, Class: f.V.Class, Detail: f.V.Detail, Seed: c.Seed, SimIndex: f.SimIndex, Scenario: sc})
		min := sc
		if f.V.Class == "data-race" {
			attempts = 20 // (sc is already reduced to the racing variant)
		} else if uncontrolled {
			min = keepControlVariants(sc)
		} else {
			min = Minimise(c.Env, sc, k, 60*time.Second)
		}
		detail := f.V.Detail
		confirmed := false
		for a := 0; a < attempts && !confirmed; a++ {
			if o2, err := ExecuteScenario(execEnv, min); err == nil {
				for _, v := range o2.Violations {
					if v.Key() == k {
						detail = v.Detail
						confirmed = true
						break
					}
				}
			}
		}
		if !confirmed {
			min = sc // the reduced scenario does not replay reliably: report the original one
		}
		if !firstTry {
			detail += " [did not replay on the first attempt: depends on nondeterminism outside the simulator's seams]"
		}
		path := filepath.Join(c.ReplayDir, name+".json")
		writeJSON(path, &ReplayFile{Version: 1, Property: c.Prop, Oracle: f.V.Oracle, Class: f.V.Class, Detail: detail, Seed: c.Seed, SimIndex: f.SimIndex, Minimised: true, Original: orig, Scenario: min})
		fmt.Fprintf(c.Out, "VIOLATION property=%s replay=%s\n", c.Prop, path)
		fmt.Fprintf(c.Out, "  oracle=%s class=%s seen=%dx: %s\n", f.V.Oracle, f.V.Class, f.Count, detail)
		exit = 1
	}
	if nViol > reported {
		fmt.Fprintf(c.Out, "  (%d further violation classes not minimised)\n", nViol-reported)
	}
	for _, u := range unreproduced {
		if exit == 1 {
			fmt.Fprintf(c.Out, "  (also: %s)\n", u)
		} else {
			fmt.Fprintf(c.Out, "ERROR property=%s violation %s\n", c.Prop, u)
			exit = 2
		}
	}
	c.Env.Stats.Add("violations", int64(nViol))
	return exit
}

// keepControlVariants reduces a compare scenario to the base and its control twin.
// onlyVariant keeps the setup and the named variant.
func onlyVariant(sc *Scenario, name string) *Scenario {
	out := cloneScenario(sc)
	var keep []Variant
	for _, v := range out.Variants {
		if v.Name == name {
			keep = append(keep, v)
		}
	}
	if len(keep) == 0 {
		return out
	}
	out.Variants = keep
	return out
}

// replayParallel executes sc par times side by side, for up to rounds rounds, and returns the round
// (from 1) in which violation k showed, 0 if it never did.
func replayParallel(env *Env, sc *Scenario, k string, rounds, par int) int {
	for round := 1; round <= rounds; round++ {
		var hit atomic.Bool
		var wg sync.WaitGroup
		for j := 0; j < par; j++ {
			wg.Add(1)
			go func() {
				defer wg.Done()
				if out, err := ExecuteScenario(env, cloneScenario(sc)); err == nil && hasKey(out.Violations, k) {
					hit.Store(true)
				}
			}()
		}
		wg.Wait()
		if hit.Load() {
			return round
		}
	}
	return 0
}

func keepControlVariants(sc *Scenario) *Scenario {
	out := cloneScenario(sc)
	var keep []Variant
	for i, v := range out.Variants {
		if i == 0 || strings.HasPrefix(v.Name, "control") {
			keep = append(keep, v)
		}
	}
	out.Variants = keep
	return out
}

func hasKey(vs []Violation, k string) bool {
	for _, v := range vs {
		if v.Key() == k {
			return true
		}
	}
	return false
}

func writeJSON(path string, v any) {
	data, _ := json.MarshalIndent(v, "", " ")
	_ = os.WriteFile(path, append(data, '\n'), 0o644)
}

// ---- known findings -------------------------------------------------------------

// Finding is one entry of /verif/known_findings.json.
type Finding struct {
	ID       string            `json:"id"`
	Status   string            `json:"status"` // "known" | "fixed"
	Property string            `json:"property"`
	Oracle   string            `json:"oracle,omitempty"`
	Class    string            `json:"class,omitempty"` // exact, or prefix when it ends in "*"
	Match    map[string]string `json:"match,omitempty"` // facts that must all agree (value may be a prefix ending in "*", or "~substr")
	What     string            `json:"what"`
	Commit   string            `json:"commit,omitempty"`
}

// Findings is the committed, read-only list.
type Findings struct{ List []Finding }

func LoadFindings(path string) (*Findings, error) {
	data, err := os.ReadFile(path)
	if err != nil {
		if os.IsNotExist(err) {
			return &Findings{}, nil
		}
		return nil, err
	}
	var f Findings
	if err := json.Unmarshal(data, &f.List); err != nil {
		return nil, fmt.Errorf("%s: %w", path, err)
	}
	return &f, nil
}

func matchVal(pattern, v string) bool {
	switch {
	case strings.HasPrefix(pattern, "~"):
		return strings.Contains(v, pattern[1:])
	case strings.HasSuffix(pattern, "*"):
		return strings.HasPrefix(v, pattern[:len(pattern)-1])
	}
	return pattern == v
}

// Match returns the "known" entry covering v, if any. "fixed" entries are
// documentation and suppress nothing.
func (f *Findings) Match(v Violation) *Finding {
	if f == nil {
		return nil
	}
	for i := range f.List {
		e := &f.List[i]
		if e.Status != "known" || e.Property != v.Property {
			continue
		}
		if e.Oracle != "" && e.Oracle != v.Oracle {
			continue
		}
		if e.Class != "" && !matchVal(e.Class, v.Class) {
			continue
		}
		ok := true
		for k, want := range e.Match {
			if !matchVal(want, v.Facts[k]) {
				ok = false
			}
		}
		if ok {
			return e
		}
	}
	return nil
}
