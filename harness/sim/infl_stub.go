package sim

// InflCase is one inflector history (C20); filled in by infl.go.
type InflCase struct {
	Clients  [][]InflCall `json:"clients"`
	Schedule []int        `json:"schedule,omitempty"`
	Seed     uint64       `json:"seed"`
}

// InflCall is one call of Pluralize ("P") or Singularize ("S").
type InflCall struct {
	Op  string `json:"op"`
	Arg string `json:"arg"`
}
