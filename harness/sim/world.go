package sim

import (
	"crypto/sha256"
	"fmt"
	"io"
	"io/fs"
	"os"
	"path/filepath"
	"sort"
	"strings"

	"golang.org/x/mod/sumdb/dirhash"
)

// Snapshot maps every path below a root to a content fingerprint.
// Regular files: "f:<sha256>"; symlinks: "l:<target>"; directories: "d".
type Snapshot map[string]string

// TakeSnapshot walks root.
func TakeSnapshot(root string) (Snapshot, error) {
	s := Snapshot{}
	err := filepath.WalkDir(root, func(p string, d fs.DirEntry, err error) error {
		if err != nil {
			return err
		}
		rel, _ := filepath.Rel(root, p)
		if rel == "." {
			return nil
		}
		switch {
		case d.Type()&fs.ModeSymlink != 0:
			t, _ := os.Readlink(p)
			s[rel] = "l:" + t
		case d.IsDir():
			s[rel] = "d"
		default:
			data, err := os.ReadFile(p)
			if err != nil {
				return err
			}
			s[rel] = fmt.Sprintf("f:%x", sha256.Sum256(data))
		}
		return nil
	})
	return s, err
}

// Diff lists paths created, changed or deleted between a and b.
func Diff(a, b Snapshot) []string {
	var out []string
	for p, v := range a {
		if w, ok := b[p]; !ok {
			out = append(out, "deleted:"+p)
		} else if v != w {
			out = append(out, "changed:"+p)
		}
	}
	for p := range b {
		if _, ok := a[p]; !ok {
			out = append(out, "created:"+p)
		}
	}
	sort.Strings(out)
	return out
}

// DiffPath strips the "kind:" prefix of a Diff entry.
func DiffPath(d string) string { return d[strings.IndexByte(d, ':')+1:] }

// CopyTree copies src to dst (regular files, directories, symlinks).
func CopyTree(src, dst string) error {
	return filepath.WalkDir(src, func(p string, d fs.DirEntry, err error) error {
		if err != nil {
			return err
		}
		rel, _ := filepath.Rel(src, p)
		target := filepath.Join(dst, rel)
		switch {
		case d.Type()&fs.ModeSymlink != 0:
			t, err := os.Readlink(p)
			if err != nil {
				return err
			}
			return os.Symlink(t, target)
		case d.IsDir():
			return os.MkdirAll(target, 0o755)
		default:
			data, err := os.ReadFile(p)
			if err != nil {
				return err
			}
			if err := os.WriteFile(target, data, 0o644); err != nil {
				return err
			}
			// a copy of a world keeps what the files' clocks and modes say
			if info, err := d.Info(); err == nil {
				if info.Mode().Perm() != 0o644 {
					_ = os.Chmod(target, info.Mode().Perm())
				}
				_ = os.Chtimes(target, info.ModTime(), info.ModTime())
			}
			return nil
		}
	})
}

// DirFiles returns the contents of the regular files directly in dir
// (name -> fingerprint), the reference model's notion of a package's content.
func DirFiles(dir string) map[string]string {
	out := map[string]string{}
	ents, err := os.ReadDir(dir)
	if err != nil {
		return out
	}
	for _, e := range ents {
		if e.IsDir() || e.Name() == "gengo.sum" {
			continue
		}
		p := filepath.Join(dir, e.Name())
		if e.Type()&fs.ModeSymlink != 0 {
			// the directory hash reads through links: a link to a readable file counts as that content
			if data, err := os.ReadFile(p); err == nil {
				out[e.Name()] = fmt.Sprintf("f:%x", sha256.Sum256(data))
				continue
			}
			t, _ := os.Readlink(p)
			out[e.Name()] = "l:" + t
			continue
		}
		data, err := os.ReadFile(p)
		if err != nil {
			out[e.Name()] = "unreadable"
			continue
		}
		out[e.Name()] = fmt.Sprintf("f:%x", sha256.Sum256(data))
	}
	return out
}

func sameFiles(a, b map[string]string) bool {
	if len(a) != len(b) {
		return false
	}
	for k, v := range a {
		if b[k] != v {
			return false
		}
	}
	return true
}

// HashDir is the driver's own computation of a package directory hash
// (x/mod dirhash, Hash1); ok=false when the directory cannot be hashed.
// gengo.sum itself is not part of any package's content: for a package in the module root the file lies
// inside the directory, and a hash covering the file that records it could never be stable.
func HashDir(dir string) (string, bool) {
	files, err := dirhash.DirFiles(dir, "")
	if err != nil {
		return "", false
	}
	var keep []string
	for _, f := range files {
		if f != "gengo.sum" {
			keep = append(keep, f)
		}
	}
	h, err := dirhash.Hash1(keep, func(name string) (io.ReadCloser, error) { return os.Open(filepath.Join(dir, name)) })
	if err != nil {
		return "", false
	}
	return h, true
}

// ParseSumLines is the driver's tolerant reader of gengo.sum: for each line
// with at least two whitespace-separated fields, path -> all hashes seen.
func ParseSumLines(data []byte) map[string][]string {
	out := map[string][]string{}
	for _, line := range strings.Split(string(data), "\n") {
		f := strings.Fields(line)
		if len(f) >= 2 {
			out[f[0]] = append(out[f[0]], f[1])
		}
	}
	return out
}
