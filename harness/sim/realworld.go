package sim

import (
	"fmt"
	"strings"

	"verifharness/proto"
)

// RealGenNames are the registered sample generators of devpkg/.
var RealGenNames = []string{"runtimedoc", "deepcopy", "defaulter"}

// DrawRealModule draws a module for the real devpkg generators: the stateful
// generators users actually run (runtimedoc keeps processed/helperWritten,
// deepcopy keeps processed). Type shapes stay inside what these generators
// handle; what their output means is C16-C18, not decided here.
func DrawRealModule(r *Rng, minPkgs int) (*ModuleSpec, []string) {
	m := &ModuleSpec{ModPath: Pick(r, modPaths), GoVer: Pick(r, []string{"1.21", "1.22.0", "1.23", "1.24", "1.24.2"})}
	nPkgs := r.Range(minPkgs, 3)
	dirs := r.Perm(len(dirNames))
	var used []string
	for _, g := range RealGenNames {
		if r.P(0.7) {
			used = append(used, g)
		}
	}
	if len(used) == 0 {
		used = []string{Pick(r, RealGenNames)}
	}
	for pi := 0; pi < nPkgs; pi++ {
		dir := dirNames[dirs[pi]]
		name := dir[strings.LastIndex(dir, "/")+1:]
		p := &PkgSpec{Dir: dir, Name: name, Anchor: fmt.Sprintf("Item%d", pi)}
		p.DocText = []string{"Package " + name + " is generated input."}
		for _, g := range used {
			if r.P(0.8) {
				p.DocTags = append(p.DocTags, Tag{Marker: "+", Key: "gengo:" + g})
			}
		}
		if len(p.DocTags) == 0 {
			p.DocTags = []Tag{{Marker: "+", Key: "gengo:" + used[0]}}
		}
		for j := 0; j < pi; j++ {
			if r.P(0.5) {
				p.Imports = append(p.Imports, j)
			}
		}
		var src []string
		k := pi
		// doc texts whose remainder starts with the declared name again ("N Number of ...", "Kind0 Kind0s ..."):
		// trimming the leading name must happen once, on a private copy
		src = append(src, fmt.Sprintf("// Sub%d Sub%d-like values are embedded by value.\ntype Sub%d struct {\n\t// N Number of things; N counts.\n\tN int\n\tVals []int\n}", k, k, k))
		src = append(src, fmt.Sprintf("// Kind%d Kind%d Kind%d Kind%d Kind%d enumerates (the name, repeated).\ntype Kind%d int", k, k, k, k, k, k))
		fields := []string{"\t// Name Names the item.\n\t// second line\n\tName string", "\t// Count Counts Count\n\tCount int", "\tTags []string", "\tMeta map[string]string",
			fmt.Sprintf("\tSub Sub%d", k), fmt.Sprintf("\tKind Kind%d", k), "\thidden bool"}
		if r.P(0.4) {
			src = append(src, fmt.Sprintf("// Labels%d is a named map.\ntype Labels%d map[string]string", k, k))
			fields = append(fields, fmt.Sprintf("\tLabels Labels%d", k))
		}
		if r.P(0.3) {
			fields = append(fields, fmt.Sprintf("\tSub%d", k)) // embedded
		}
		for di, j := range p.Imports {
			if r.P(0.7) {
				fields = append(fields, fmt.Sprintf("\tDep%d dep%d.%s", di, di, m.Pkgs[j].Anchor))
			}
		}
		// field order is part of the input
		perm := r.Perm(len(fields))
		var fl []string
		for _, i := range perm {
			fl = append(fl, fields[i])
		}
		src = append(src, fmt.Sprintf("// Item%d Item%d Item%d Item%d is the main type.\n//\n// It has \"quotes\" and a `backquote`.\ntype Item%d struct {\n%s\n}", k, k, k, k, k, strings.Join(fl, "\n")))
		if r.P(0.3) {
			src = append(src, fmt.Sprintf("type unexported%d struct {\n\tA int\n}", k))
		}
		if r.P(0.3) {
			src = append(src, fmt.Sprintf("// Empty%d has no fields.\ntype Empty%d struct{}", k, k))
		}
		if r.P(0.3) {
			src = append(src, fmt.Sprintf("// Names%d is a slice.\ntype Names%d []string", k, k))
		}
		order := r.Perm(len(src))
		f := &SrcFile{Name: "doc.go"}
		for _, i := range order {
			f.Decls = append(f.Decls, &Decl{Kind: "raw", Name: fmt.Sprintf("raw%d", i), Fields: []string{src[i]}})
		}
		p.Files = []*SrcFile{f}
		m.Pkgs = append(m.Pkgs, p)
	}
	return m, used
}

// RealGens returns probe + the named registered generators.
func RealGens(names []string) []proto.GenScript {
	gens := []proto.GenScript{Probe()}
	for _, n := range names {
		gens = append(gens, proto.GenScript{Name: n, Impl: "real"})
	}
	return gens
}
