package sim

import (
	"fmt"
	"path/filepath"
	"sort"
	"strings"

	"verifharness/proto"
	"verifharness/simrt"
)

// RunOp is one gengo run.
type RunOp struct {
	Args   proto.GenArgs     `json:"args"`
	Gens   []proto.GenScript `json:"gens"`
	Sched  simrt.Schedule    `json:"sched"`
	Faults []proto.Fault     `json:"faults,omitempty"`
	Fresh  bool              `json:"fresh,omitempty"` // start a fresh worker process for this run
	// FirstGlobals (with HasFirstGlobals): an earlier Execute on the same executor used these global tags.
	FirstGlobals    map[string][]string `json:"first_globals,omitempty"`
	HasFirstGlobals bool                `json:"has_first_globals,omitempty"`
	// FirstGens: the generators of the first pass (with HasFirstGlobals), if other than Gens.
	FirstGens []proto.GenScript `json:"first_gens,omitempty"`
	// SecondContext: another context over a scratch copy of the world is created before this run's
	// context and executed while it is alive (two contexts in one process at the same time).
	SecondContext bool `json:"second_context,omitempty"`
	// ViaRegistry: the generators go through gengo.Register / GetRegisteredGenerators.
	ViaRegistry bool `json:"via_registry,omitempty"`
	// KeepExecutor / ReuseExecutor: the executor of this run stays alive in the worker / this run calls
	// Execute on the executor the previous run kept (same process, same entrypoints, no edit in between).
	KeepExecutor  bool `json:"keep_executor,omitempty"`
	ReuseExecutor bool `json:"reuse_executor,omitempty"`
	// RetrySameExecutor: if Execute fails, the caller calls Execute again on the same executor.
	RetrySameExecutor bool `json:"retry_same_executor,omitempty"`
	// GoMaxProcs of the (fresh) worker process: go/packages parses and type-checks in parallel, and
	// the order in which its goroutines register files decides every token.Pos value.
	GoMaxProcs int `json:"gomaxprocs,omitempty"`
	// Cwd: the working directory of the run, relative to the module root (default: the module root).
	// Entrypoints of such a run are import paths.
	Cwd string `json:"cwd,omitempty"`
}

// Op is one step of a history.
type Op struct {
	// Kind: run | edit | touch (append a comment to source file Path of package K, rendered from the
	// current spec) | retag (change the tags of a declaration in place) | delete | delsum | corruptsum | unhashable | converge |
	// recover (C02-E4: repeat the previous All run fault-free until it converges)
	Kind    string `json:"kind"`
	Run     *RunOp `json:"run,omitempty"`
	Path    string `json:"path,omitempty"`
	Content string `json:"content,omitempty"`
	How     string `json:"how,omitempty"`
	K       int    `json:"k,omitempty"`
	Note    string `json:"note,omitempty"`
	// retag: the new tags of declaration Path in package K (same number of lines: positions do not move)
	Tags []Tag `json:"tags,omitempty"`
	// MTime (edit, touch, retag): what the file's clock says after the write - "" the real time of the
	// write; "keep" the modification time the file had before (a restore that preserves timestamps, an
	// edit within the timestamp granularity); "past" a time long before everything else in the tree
	// (a file unpacked from an archive, a machine whose clock is behind); "future" (a clock that is ahead)
	MTime string `json:"mtime,omitempty"`
	// SameSize (touch): the appended comment has a fixed width, so that two such edits of one file differ
	// in content only, not in size
	SameSize bool `json:"same_size,omitempty"`
}

// Variant is one continuation of the world built by Setup.
type Variant struct {
	Name string `json:"name"`
	Ops  []Op   `json:"ops"`
}

// Scenario is a fully materialised simulation: no PRNG state is needed to
// re-execute it, which makes it the replay format.
type Scenario struct {
	// Kind: history | compare-bytes (C04) | compare-alone (C05) | compare-recovery (C02) | universe (C13) | infl (C20)
	Kind     string      `json:"kind"`
	Property string      `json:"property"`
	Module   *ModuleSpec `json:"module,omitempty"`
	Base     string      `json:"base,omitempty"`
	Setup    []Op        `json:"setup,omitempty"`
	Variants []Variant   `json:"variants,omitempty"`
	// OnlyOwnOracles: the world contains input whose meaning the models of other properties leave open (e.g.
	// package tags that contradict each other in two files): only the oracles of Property are evaluated.
	OnlyOwnOracles bool `json:"only_own_oracles,omitempty"`
	// LinkedRoot: the module is reached through a path one component of which is a symbolic link (a
	// workspace on another volume, /tmp on macOS, a linked home directory); every path the harness uses
	// is the spelling with the link.
	LinkedRoot bool      `json:"linked_root,omitempty"`
	Infl       *InflCase `json:"infl,omitempty"`
	// UniformGens: every run of the history uses the same generators, scripts and globals, so the final
	// state of every local package is determined by the spec alone (C07-T5).
	UniformGens bool `json:"uniform_gens,omitempty"`
	// UniAll: report every package of the closure (std included), not only the module's.
	UniAll bool `json:"uni_all,omitempty"`
	// ExternalRoot: load an existing module read-only instead of a synthetic one (C13 on /repo's closure).
	ExternalRoot string `json:"external_root,omitempty"`
	Note         string `json:"note,omitempty"`
}

// ---- the declaration pool: what scripted generators render -----------------

// poolEntry is a template of one top-level declaration. $T is the type the
// generator was called for, $U a suffix unique per (generator, type, index).
// Every entry is left alone by gofmt and gofumpt except for whitespace; the
// harness self-test verifies that (token-for-token) for singles and pairs.
type poolEntry struct {
	Text     string
	Method   bool // declares a method on $T: only for non-interface, non-generic defined types
	DeclType bool // declares a new named type: only in single-run scenarios (rule w2)
	Ref      string
	Heavy    bool // a std package whose closure costs ~350 ms per load: drawn rarely
}

var declPool = []poolEntry{
	{Text: "\nfunc (v *$T) Gen$U() int {\n\treturn 1\n}\n", Method: true},
	{Text: "\n\n\nfunc   Fn$U( )   { }\n"},
	{Text: "\n// Doc$U is documented.\nfunc Doc$U(a, b int) (int, error) {\n\tif a > b {\n\t\treturn a, nil\n\t}\n\treturn b, nil\n}\n"},
	{Text: "\nvar Var$U = []string{\"a\", \"b\"}\n"},
	{Text: "\nconst Const$U = \"x\\ty\"\n"},
	{Text: "\nvar (\n\tGa$U = 1\n\tGb$U = 2\n)\n"},
	{Text: "\n/* block comment $U */\nfunc Blk$U() {}\n"},
	{Text: "\nfunc Sw$U(x any) string {\n\tswitch x.(type) {\n\tcase int:\n\t\treturn \"int\"\n\tdefault:\n\t\treturn \"\"\n\t}\n}\n"},
	{Text: "\nvar Fl$U = func() int { return 2 }\n"},
	{Text: "\nvar Mp$U = map[string][]int{\"k\": {1, 2}}\n"},
	{Text: "\nfunc Gn$U[X any](x X) X { return x }\n"},
	{Text: "func Tight$U() (r int) {\n\tdefer func() { r++ }()\n\tfor i := 0; i < 3; i++ {\n\t\tr += i\n\t}\n\treturn\n}\n"},
	{Text: "\n\t  \t\nvar    Odd$U   =   `raw\n  string`\n"},
	{Text: "\nfunc (v $T) Val$U() string {\n\treturn \"v\"\n}\n", Method: true},
	// whitespace only gofumpt (not gofmt) normalises: the file is canonical only if gofumpt really ran
	{Text: "\nfunc Loose$U() int {\n\n\tx := 1\n\n\treturn x\n\n}\n"},
	// percent signs: rendered text is data, never a format string
	{Text: "\nconst Pct$U = \"100%% of %d items: %s %v 5%\"\n\n// Rate$U is 50% (not %!d).\nfunc Rate$U() string { return `LIKE 'a%'` }\n"},
	// gofumpt's version-gated rule: legacy octal literals become 0o... when the module's go version allows it
	{Text: "\nconst Perm$U = 0644\n"},
	// number literals as a user may have spelled them in a tag or constant: gofmt canonicalises prefix and exponent
	{Text: "\nconst (\n\tMask$U = 0XFF\n\tMil$U  = 1E6\n\tBits$U = 0B1010\n\tOct$U  = 0O17\n\tHexf$U = 0X1P-2\n)\n"},
	{Text: "\nvar Comp$U = []int{\n\t1,\n\t2,\n}\n\nfunc After$U() {}\n"},
	{Text: "\ntype Nt$U struct {\n\tA int `json:\"a\"`\n}\n", DeclType: true},
	{Text: "\nvar Ref$U ", Ref: "container/list.List"},
	{Text: "\nvar Ref$U *", Ref: "container/ring.Ring"},
	{Text: "\nvar Ref$U ", Ref: "unicode.RangeTable"},
	{Text: "\nvar Ref$U ", Ref: "strings.Builder", Heavy: true},
	{Text: "\nvar Ref$U ", Ref: "time.Duration", Heavy: true},
	{Text: "\nvar Ref$U ", Ref: "LOCAL"}, // a type of another package of the module
}

func sanitize(s string) string {
	var sb strings.Builder
	for _, c := range s {
		switch {
		case c >= 'a' && c <= 'z', c >= 'A' && c <= 'Z', c >= '0' && c <= '9':
			sb.WriteRune(c)
		default:
			sb.WriteRune('_')
		}
	}
	return sb.String()
}

// ValueKinds are the map values a script can render through snippet.Value: JSON of a map[string]int, or
// the name of a map with non-string keys built in the worker ("float-keys": map[float64]int with integral
// and fractional keys, "uint-keys": map[uint64]int with a key above MaxInt64, "int-keys", "bool-keys").
var ValueKinds = []string{`{"b":2,"a":1,"c":3,"aa":4,"B":5}`, "float-keys", "uint-keys", "int-keys", "bool-keys", `{"10":1,"9":2,"1e3":3}`}

// ScriptConfig is the swarm configuration for generator scripts.
type ScriptConfig struct {
	PRender    float64
	PNothing   float64
	PSkip      float64
	PIgnore    float64
	PDefer     float64
	PRefs      float64
	PStateful  float64
	PDeclTypes float64 // only C01 single-run scenarios
	PValue     float64
	PNoNew     float64
	PNoAlias   float64
	PDocRef    float64 // render the documentation of a type of a (possibly different) package of the closure
}

// DrawScriptConfig draws one.
func DrawScriptConfig(r *Rng) ScriptConfig {
	onoff := func(p, v float64) float64 {
		if r.P(p) {
			return v
		}
		return 0
	}
	return ScriptConfig{
		PRender:   0.75,
		PNothing:  onoff(0.6, 0.15),
		PSkip:     onoff(0.5, 0.1),
		PIgnore:   onoff(0.5, 0.1),
		PDefer:    onoff(0.5, 0.2),
		PRefs:     onoff(0.5, 0.3),
		PStateful: onoff(0.5, 0.3),
		PNoNew:    onoff(0.6, 0.5),
		PNoAlias:  onoff(0.4, 0.4),
		PDocRef:   onoff(0.4, 0.25),
	}
}

func drawParts(r *Rng, cfg ScriptConfig, m *ModuleSpec, pi int, td TypeDecl, gen string, n int) []proto.Part {
	var parts []proto.Part
	for k := 0; k < n; k++ {
		var e poolEntry
		for {
			e = Pick(r, declPool)
			if e.Method && (td.Alias || td.Kind == "iface" || td.Kind == "generic") {
				continue
			}
			if e.DeclType && !r.P(cfg.PDeclTypes) {
				continue
			}
			if e.Ref != "" && !r.P(cfg.PRefs) {
				continue
			}
			if e.Heavy && !r.P(0.05) {
				continue
			}
			break
		}
		u := fmt.Sprintf("%s_%s_%d", sanitize(gen), td.Name, k)
		text := strings.ReplaceAll(strings.ReplaceAll(e.Text, "$T", td.Name), "$U", u)
		if e.Ref == "" {
			parts = append(parts, proto.Part{Text: text})
			continue
		}
		ref := e.Ref
		if ref == "LOCAL" {
			// reference the anchor of another package of the module, else of this one
			// (only packages that can be imported from here without a cycle)
			// and that are already in its import closure: a generated import must
			// not change which packages are local to a run
			j := pi
			var cands []int
			for _, c := range m.Closure([]int{pi}) {
				if importAllowed(m.Pkgs[pi].Dir, m.Pkgs[c].Dir) {
					cands = append(cands, c)
				}
			}
			if len(cands) > 0 {
				j = Pick(r, cands)
			}
			ref = m.ImportPath(j) + "." + m.Pkgs[j].Anchor
		}
		parts = append(parts, proto.Part{Text: text}, proto.Part{Ref: ref}, proto.Part{Text: "\n"})
	}
	if r.P(cfg.PDocRef) {
		// documentation of a documented type of this or of an imported package
		var cands []string
		for _, c := range m.Closure([]int{pi}) {
			for _, t := range m.Pkgs[c].TypeDecls() {
				ref := m.ImportPath(c) + "." + t.Name
				if len(m.DocLinesOf(ref)) > 0 {
					cands = append(cands, ref)
				}
			}
		}
		if len(cands) > 0 {
			parts = append(parts, proto.Part{DocRef: Pick(r, cands)}, proto.Part{Text: fmt.Sprintf("func AfterDoc_%s_%s() {}\n", sanitize(gen), td.Name)})
		}
	}
	if r.P(cfg.PValue) {
		u := fmt.Sprintf("%s_%s_v", sanitize(gen), td.Name)
		parts = append(parts, proto.Part{Text: "\nvar Val" + u + " = "}, proto.Part{Value: Pick(r, ValueKinds)}, proto.Part{Text: "\n"})
	}
	return parts
}

// DrawScript draws a scripted generator for module m.
func DrawScript(r *Rng, cfg ScriptConfig, m *ModuleSpec, name string) proto.GenScript {
	s := proto.GenScript{Name: name, Impl: "new", Rules: map[string]proto.Rule{}, AliasRules: map[string]proto.Rule{}}
	if r.P(cfg.PNoNew) {
		s.Impl = "nonew"
	}
	s.NoAlias = r.P(cfg.PNoAlias)
	s.Scalar = s.Impl == "nonew" && s.NoAlias && r.P(0.5)
	stateful := r.P(cfg.PStateful)
	for pi := range m.Pkgs {
		for _, td := range m.Pkgs[pi].TypeDecls() {
			key := m.ImportPath(pi) + " " + td.Name
			var rule proto.Rule
			switch {
			case r.P(cfg.PSkip):
				rule.Ret = Pick(r, []string{"skip", "skip", "wrapped-skip"})
			case r.P(cfg.PIgnore) && !td.Alias:
				// rule w3: ErrIgnore only from GenerateType, and it renders nothing
				rule.Ret = Pick(r, []string{"ignore", "ignore", "wrapped-ignore"})
			case r.P(cfg.PNothing):
			case r.P(cfg.PDefer / 3):
				// nothing is rendered from GenerateType itself: all output comes from deferred callbacks
				rule.Defers = append(rule.Defers, proto.Rule{Render: []proto.Part{{Text: fmt.Sprintf("\nfunc OnlyDeferred_%s_%s() {}\n", sanitize(name), td.Name)}}})
			default:
				rule.Render = drawParts(r, cfg, m, pi, td, name, r.Range(1, 2))
				if r.P(0.15) || td.Kind == "generic" {
					// what is this type called - asked through its object and through its qualified name; generators
					// that share a world ask in different orders, so that two files of one run disagree if the answer
					// depends on what was asked first
					flip, ok := map[string]bool{"x": false, "xy": true, "x:y": true, "a": false, "ab": true, "a:b": false, "g1": false, "g2": true}[name]
					if !ok {
						flip = len(name)%2 == 0
					}
					rule.Render = append(rule.Render, proto.Part{Names: true, Flip: flip})
				}
				if r.P(0.1) {
					rule.Render = append(rule.Render, proto.Part{Octal: true, Text: fmt.Sprintf("Perm_%s_%s", sanitize(name), td.Name)})
				}
				if (td.Kind == "struct" || td.Kind == "generic") && r.P(0.3) {
					// what do the fields' comments say?
					rule.Render = append(rule.Render, proto.Part{FieldDocs: true})
				}
				if imps := m.Pkgs[pi].Imports; len(imps) > 0 && r.P(0.2) {
					// where does a type of an imported package live?
					j := Pick(r, imps)
					rule.Render = append(rule.Render, proto.Part{Locate: m.ImportPath(j) + "." + m.Pkgs[j].Anchor})
				}
				if stateful {
					u := fmt.Sprintf("%s_%s", sanitize(name), td.Name)
					if r.P(0.5) {
						rule.Render = append(rule.Render, proto.Part{State: "helper-once", Text: "\nfunc helper_" + sanitize(name) + "() {}\n"})
					} else {
						rule.Render = append(rule.Render, proto.Part{State: "inst-count", Text: "\nconst Cnt" + u + " = "}, proto.Part{Text: "\n"})
					}
				}
				if r.P(cfg.PDefer) {
					d := proto.Rule{}
					if r.P(0.8) {
						d.Render = []proto.Part{{Text: fmt.Sprintf("\nfunc Deferred_%s_%s() {}\n", sanitize(name), td.Name)}}
					}
					rule.Defers = append(rule.Defers, d)
				}
			}
			if td.Alias {
				s.AliasRules[key] = rule
			} else {
				s.Rules[key] = rule
			}
		}
	}
	// how parts are handed over (the rendered text is the same whichever way)
	via := func(ps []proto.Part) {
		for k := range ps {
			switch {
			case ps[k].Ref != "" && ps[k].State == "" && r.P(0.3):
				ps[k].Via = "expose-shared"
			case ps[k].Text != "" && ps[k].State == "" && ps[k].Ref == "" && ps[k].Value == "" && ps[k].Tmpl == "" && ps[k].DocRef == "" && r.P(0.12):
				ps[k].Via = "lazy"
			}
		}
	}
	for _, rules := range []map[string]proto.Rule{s.Rules, s.AliasRules} {
		for _, key := range sortedKeys(rules) {
			rule := rules[key]
			via(rule.Render)
			for d := range rule.Defers {
				via(rule.Defers[d].Render)
			}
			rules[key] = rule
		}
	}
	return s
}

// Probe is the generator whose New calls tell which packages were executed.
func Probe() proto.GenScript { return proto.GenScript{Name: "probe", Impl: "probe"} }

// ---- entrypoints -------------------------------------------------------------

// EntrySpelling returns one way to name package pi on the command line.
func EntrySpelling(r *Rng, m *ModuleSpec, pi int) string {
	if r.P(0.5) || m.Pkgs[pi].InSub {
		return m.ImportPath(pi)
	}
	if m.Pkgs[pi].Dir == "" {
		return "."
	}
	return "./" + m.Pkgs[pi].Dir
}

// ResolveEntrypoints maps the entrypoint strings of a run back to package
// indices (the driver generated them, so every spelling is known).
func ResolveEntrypoints(m *ModuleSpec, eps []string) []int {
	seen := map[int]bool{}
	var out []int
	add := func(i int) {
		if !seen[i] {
			seen[i] = true
			out = append(out, i)
		}
	}
	for _, e := range eps {
		switch {
		case e == "./...":
			for i := range m.Pkgs {
				if !m.Pkgs[i].InSub { // (the pattern does not cross the boundary of a nested module)
					add(i)
				}
			}
		case e == ".":
			for i, p := range m.Pkgs {
				if p.Dir == "" {
					add(i)
				}
			}
		case strings.HasPrefix(e, "file="):
			// the package that contains the file (path relative to the module root)
			dir := filepath.ToSlash(filepath.Dir(e[len("file="):]))
			if dir == "." {
				dir = ""
			}
			for i, p := range m.Pkgs {
				if p.Dir == dir {
					add(i)
				}
			}
		case strings.HasPrefix(e, "./"):
			for i, p := range m.Pkgs {
				if p.Dir == e[2:] {
					add(i)
				}
			}
		default:
			if i := m.PkgByPath(e); i >= 0 {
				add(i)
			}
		}
	}
	sort.Ints(out)
	return out
}

// NoFaults marks every ExecSeq as unused (helper for hand-built faults).
func symFault(kind, path string, nth int, do string) proto.Fault {
	return proto.Fault{ExecSeq: -1, Kind: kind, Path: path, Nth: nth, Do: do}
}

// The errno alphabets of injected I/O errors, per kind of call: what the kernel can answer there for
// reasons outside the program (permissions and read-only mounts, quotas and full disks, descriptor
// limits, mount points and other devices, network file systems).
var (
	openErrnos   = []string{"EACCES", "EPERM", "EROFS", "ENOSPC", "EDQUOT", "EMFILE", "ENFILE", "EISDIR", "ENOENT", "ETXTBSY", "ELOOP", "EIO"}
	readErrnos   = []string{"EACCES", "EIO", "EMFILE", "ESTALE", "EINTR"}
	writeErrnos  = []string{"ENOSPC", "EIO", "EDQUOT", "EFBIG", "EINTR", "EAGAIN"}
	renameErrnos = []string{"EACCES", "EPERM", "EROFS", "EBUSY", "EXDEV", "EIO", "ENOSPC", "EISDIR", "ENOTEMPTY"}
	removeErrnos = []string{"EACCES", "EPERM", "EROFS", "EBUSY", "EIO"}
)

func errnosFor(kind string) []string {
	switch kind {
	case "os.open":
		return openErrnos
	case "os.read":
		return readErrnos
	case "os.write", "os.writeat", "os.sync", "os.close", "os.readfrom":
		return writeErrnos
	case "os.rename":
		return renameErrnos
	case "os.remove":
		return removeErrnos
	}
	return []string{"EIO"}
}
