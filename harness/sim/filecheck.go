package sim

import (
	"bytes"
	"fmt"
	"go/ast"
	"go/format"
	"go/parser"
	"go/scanner"
	"go/token"
	"os"
	"path/filepath"
	"regexp"
	"strconv"
	"strings"

	gformat "mvdan.cc/gofumpt/format"

	"verifharness/proto"
)

var tmplArgRe = regexp.MustCompile(`@[A-Za-z0-9_]+`)

// wildcardMark stands in the expected text for a part the driver does not predict.
const wildcardMark = "/*VERIF-ANY*/"

type tok struct {
	T token.Token
	L string
}

func normComment(s string) string {
	return strings.Join(strings.Fields(s), " ")
}

// tokens scans src starting at byte offset from; automatic semicolons are
// dropped, comments are kept with whitespace normalised.
func tokens(src []byte, from int) ([]tok, error) {
	fset := token.NewFileSet()
	f := fset.AddFile("x.go", -1, len(src))
	var s scanner.Scanner
	var serr error
	s.Init(f, src, func(pos token.Position, msg string) { serr = fmt.Errorf("%v: %s", pos, msg) }, scanner.ScanComments)
	var out []tok
	for {
		pos, t, lit := s.Scan()
		if t == token.EOF {
			break
		}
		if f.Offset(pos) < from {
			continue
		}
		if t == token.SEMICOLON && lit == "\n" {
			continue
		}
		if t == token.COMMENT {
			lit = normComment(lit)
		}
		if t == token.INT {
			// gofumpt rewrites legacy octal literals (0644 -> 0o644) for go >= 1.13: compare integers by value
			if v, err := strconv.ParseInt(strings.ReplaceAll(lit, "_", ""), 0, 64); err == nil {
				lit = strconv.FormatInt(v, 10)
			}
		}
		if t == token.FLOAT {
			// gofmt canonicalises prefix and exponent letters (1E6 -> 1e6, 0X1P-2 -> 0x1p-2): compare by value
			if v, err := strconv.ParseFloat(strings.ReplaceAll(lit, "_", ""), 64); err == nil {
				lit = strconv.FormatFloat(v, 'g', -1, 64)
			}
		}
		if !t.IsLiteral() && t != token.COMMENT {
			lit = ""
		}
		out = append(out, tok{t, lit})
	}
	return out, serr
}

func tokString(ts []tok, i int) string {
	lo, hi := max(0, i-4), min(len(ts), i+5)
	var sb strings.Builder
	for k := lo; k < hi; k++ {
		if k == i {
			sb.WriteString(" >>")
		}
		if ts[k].L != "" {
			sb.WriteString(" " + ts[k].L)
		} else {
			sb.WriteString(" " + ts[k].T.String())
		}
	}
	return sb.String()
}

// checkFile evaluates F1-F6 on one generated file of a successful run.
func (x *Exec) checkFile(rec *StepRecord, pi int, g *proto.GenScript, o genOutcome, rel string) {
	m := x.Sc.Module
	p := m.Pkgs[pi]
	data, err := os.ReadFile(filepath.Join(x.Root, rel))
	if err != nil {
		return
	}
	x.Env.Stats.Add("files-checked", 1)
	fset := token.NewFileSet()
	f, err := parser.ParseFile(fset, rel, data, parser.ParseComments|parser.SkipObjectResolution)
	if err != nil {
		x.violate("C01", "F1", "generated-file-does-not-parse", rel+": "+firstLine(err.Error()), nil)
		return
	}
	// F2: opens with a comment naming the generator
	if len(f.Comments) == 0 || f.Comments[0].Pos() != 1 || !strings.Contains(f.Comments[0].Text(), "gengo:"+g.Name) {
		x.violate("C01", "F2", "no-leading-comment-naming-generator", rel, nil)
	}
	// F3: package clause
	if f.Name.Name != p.Name {
		x.violate("C01", "F3", "wrong-package-name", fmt.Sprintf("%s: package %s, want %s", rel, f.Name.Name, p.Name), nil)
	}
	for _, cg := range f.Comments {
		for _, cm := range cg.List {
			if t := strings.TrimPrefix(cm.Text, "// NAMEOF "); t != cm.Text {
				if k := strings.Index(t, " = "); k > 0 {
					if x.nameForms[t[:k]] == nil {
						x.nameForms[t[:k]] = map[string]string{}
					}
					if _, ok := x.nameForms[t[:k]][t[k+3:]]; !ok {
						x.nameForms[t[:k]][t[k+3:]] = rel
					}
				}
			}
		}
	}
	// F5 / F6: fixed points of gofmt and gofumpt
	if out, err := format.Source(data); err != nil || !bytes.Equal(out, data) {
		x.violate("C01", "F5", "not-gofmt-fixed-point", rel, nil)
	}
	modPath, goVer := m.ModuleOf(pi)
	if out, err := gformat.Source(data, gformat.Options{LangVersion: "go" + goVer, ModulePath: modPath}); err != nil || !bytes.Equal(out, data) {
		x.violate("C01", "F6", "not-gofumpt-fixed-point", rel, nil)
	}
	// F4: the declarations rendered, in order, altered only by formatting. Parts whose text the driver does not
	// predict (dumped values, tables, comments computed from the universe) stand for "any tokens": what is
	// rendered before, between and after them must still be there, in order.
	imports := map[string]string{}
	bodyFrom := fset.Position(f.Name.End()).Offset
	for _, d := range f.Decls {
		gd, ok := d.(*ast.GenDecl)
		if !ok || gd.Tok != token.IMPORT {
			break
		}
		bodyFrom = fset.Position(gd.End()).Offset
		for _, s := range gd.Specs {
			is := s.(*ast.ImportSpec)
			path, _ := strconv.Unquote(is.Path.Value)
			name := path[strings.LastIndex(path, "/")+1:]
			if is.Name != nil {
				name = is.Name.Name
			}
			imports[path] = name
		}
	}
	var want strings.Builder
	want.WriteString("package " + p.Name + "\n")
	hdr := want.Len()
	ip := m.ImportPath(pi)
	resolve := func(ref string) (string, bool) {
		i := strings.LastIndex(ref, ".")
		path, name := ref[:i], ref[i+1:]
		if path == ip {
			return name, true
		}
		if alias, ok := imports[path]; ok {
			return alias + "." + name, true
		}
		x.violate("C01", "F4", "referenced-package-not-imported", fmt.Sprintf("%s: %s", rel, path), nil)
		return "", false
	}
	for _, part := range o.Parts {
		switch {
		case part.Value != "" || part.Results || part.Bulk > 0 || part.Locate != "" || part.Names:
			want.WriteString(" " + wildcardMark + " ")
		case part.Tmpl != "":
			text, ok := part.Tmpl, true
			text = tmplArgRe.ReplaceAllStringFunc(text, func(ph string) string {
				r, rok := resolve(part.TArgs[ph[1:]])
				ok = ok && rok
				return r
			})
			if !ok {
				return
			}
			want.WriteString(strings.TrimLeft(text, "\n")) // snippet.T drops leading newlines of its format
		case part.Octal:
			// (integers are compared by value: whether the literal is spelled 0644 or 0o644 is F6's business)
			want.WriteString("\nconst " + part.Text + " = 0644\n")
		case part.FieldDocs:
			// comment lines "// FIELD ..." whose text the driver does not predict: left out on both sides (below)
		case part.DocRef != "":
			want.WriteString("\n// DOC " + strings.Join(m.DocLinesOf(part.DocRef), " | ") + "\n")
		case part.Ref != "":
			r, ok := resolve(part.Ref)
			if !ok {
				return
			}
			want.WriteString(r)
		default:
			want.WriteString(part.Text)
		}
	}
	wt, werr := tokens([]byte(want.String()), hdr)
	if werr != nil {
		return // the expectation itself is not scannable: a harness pool defect caught by the self-test
	}
	gt, _ := tokens(data, bodyFrom)
	kept := gt[:0]
	for _, t := range gt {
		if t.T == token.COMMENT && strings.HasPrefix(t.L, "// FIELD ") {
			continue
		}
		kept = append(kept, t)
	}
	gt = kept
	if o.HasValue {
		// segments between wildcards: the first is a prefix, the last a suffix, the others occur in order
		var segs [][]tok
		cur := []tok{}
		for _, t := range wt {
			if t.T == token.COMMENT && t.L == wildcardMark {
				segs = append(segs, cur)
				cur = []tok{}
				continue
			}
			cur = append(cur, t)
		}
		segs = append(segs, cur)
		eq := func(a, b []tok) bool {
			for i := range a {
				if a[i] != b[i] {
					return false
				}
			}
			return true
		}
		pos := 0
		for k, seg := range segs {
			switch {
			case k == 0:
				if len(gt) < len(seg) || !eq(seg, gt[:len(seg)]) {
					x.violate("C01", "F4", "rendered-declarations-altered", fmt.Sprintf("%s: the file does not begin with the %d tokens rendered before the first computed part", rel, len(seg)), nil)
					return
				}
				pos = len(seg)
			case k == len(segs)-1:
				if len(gt)-len(seg) < pos || !eq(seg, gt[len(gt)-len(seg):]) {
					x.violate("C01", "F4", "rendered-declarations-altered", fmt.Sprintf("%s: the file does not end with the %d tokens rendered after the last computed part", rel, len(seg)), nil)
					return
				}
			default:
				found := -1
				for at := pos; at+len(seg) <= len(gt); at++ {
					if eq(seg, gt[at:at+len(seg)]) {
						found = at
						break
					}
				}
				if found < 0 {
					x.violate("C01", "F4", "rendered-declarations-altered", fmt.Sprintf("%s: %d tokens rendered between two computed parts are not in the file (in order)", rel, len(seg)), nil)
					return
				}
				pos = found + len(seg)
			}
		}
		x.Env.Stats.Add("probe/f4-with-computed-parts", 1)
		return
	}
	n := min(len(wt), len(gt))
	for i := 0; i < n; i++ {
		if wt[i] != gt[i] {
			x.violate("C01", "F4", "rendered-declarations-altered", fmt.Sprintf("%s: token %d: got%s | want%s", rel, i, tokString(gt, i), tokString(wt, i)), nil)
			return
		}
	}
	if len(wt) != len(gt) {
		class := "rendered-declarations-truncated"
		if len(gt) > len(wt) {
			class = "extra-content-in-file"
		}
		x.violate("C01", "F4", class, fmt.Sprintf("%s: %d tokens, want %d", rel, len(gt), len(wt)), nil)
	}
}

// SelfTestPool verifies that gofmt+gofumpt leave every pool entry (alone and
// in ordered pairs) token-identical, so that F4 never has to guess whether a
// difference "is only formatting".
func SelfTestPool() error {
	render := func(e poolEntry, u string) string {
		t := strings.ReplaceAll(strings.ReplaceAll(e.Text, "$T", "T"), "$U", u)
		switch e.Ref {
		case "":
		case "LOCAL":
			t += "T\n"
		default:
			t += e.Ref[strings.LastIndex(e.Ref, "/")+1:] + "\n"
		}
		return t
	}
	check := func(body string) error {
		src := "package p\n\nimport (\n\t\"container/list\"\n\t\"container/ring\"\n\t\"strings\"\n\t\"time\"\n\t\"unicode\"\n)\n\nvar (\n\t_ list.List\n\t_ ring.Ring\n\t_ strings.Builder\n\t_ time.Duration\n\t_ unicode.RangeTable\n)\n\ntype T struct{}\n" + body
		for _, ver := range []string{"go1.18", "go1.24.2"} {
			out, err := gformat.Source([]byte(src), gformat.Options{LangVersion: ver, ModulePath: "example.com/m"})
			if err != nil {
				return fmt.Errorf("pool entry does not format: %v\n%s", err, body)
			}
			out, err = format.Source(out)
			if err != nil {
				return err
			}
			a, _ := tokens([]byte(src), 0)
			b, _ := tokens(out, 0)
			if len(a) != len(b) {
				return fmt.Errorf("formatter changed the token count of a pool entry (%d -> %d):\n%s", len(a), len(b), body)
			}
			for i := range a {
				if a[i] != b[i] {
					return fmt.Errorf("formatter changed token %d of a pool entry: %v -> %v\n%s", i, a[i], b[i], body)
				}
			}
		}
		return nil
	}
	for i, e := range declPool {
		if err := check(render(e, fmt.Sprintf("a%d", i))); err != nil {
			return err
		}
		for j, e2 := range declPool {
			if err := check(render(e, fmt.Sprintf("a%d", i)) + render(e2, fmt.Sprintf("b%d", j))); err != nil {
				return err
			}
		}
	}
	return nil
}
