package sim

import "hash/fnv"

// Rng is the single source of randomness of a simulation (splitmix64).
type Rng struct{ s uint64 }

// NewRng derives a generator from the seed, a label and an index, so that
// simulation i of property P under VERIF_SEED s is a pure function of (s,P,i).
func NewRng(seed int64, label string, index int) *Rng {
	h := fnv.New64a()
	h.Write([]byte(label))
	r := &Rng{s: uint64(seed)*0x9e3779b97f4a7c15 ^ h.Sum64() ^ (uint64(index)+1)*0xbf58476d1ce4e5b9}
	r.U64()
	r.U64()
	return r
}

func (r *Rng) U64() uint64 {
	r.s += 0x9e3779b97f4a7c15
	x := r.s
	x = (x ^ (x >> 30)) * 0xbf58476d1ce4e5b9
	x = (x ^ (x >> 27)) * 0x94d049bb133111eb
	return x ^ (x >> 31)
}

// Intn returns a value in [0,n).
func (r *Rng) Intn(n int) int {
	if n <= 0 {
		return 0
	}
	return int(r.U64() % uint64(n))
}

// Range returns a value in [lo,hi].
func (r *Rng) Range(lo, hi int) int { return lo + r.Intn(hi-lo+1) }

// P is true with probability p.
func (r *Rng) P(p float64) bool { return float64(r.U64()>>11)/float64(1<<53) < p }

func Pick[T any](r *Rng, xs []T) T { return xs[r.Intn(len(xs))] }

// Perm returns a permutation of 0..n-1.
func (r *Rng) Perm(n int) []int {
	p := make([]int, n)
	for i := range p {
		p[i] = i
	}
	for i := n - 1; i > 0; i-- {
		j := r.Intn(i + 1)
		p[i], p[j] = p[j], p[i]
	}
	return p
}

// Fork derives an independent stream.
func (r *Rng) Fork() *Rng { return &Rng{s: r.U64() ^ 0x94d049bb133111eb} }
