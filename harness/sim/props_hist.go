package sim

import (
	"encoding/json"
	"fmt"
	"os"
	"path/filepath"
	"strings"

	"verifharness/proto"
	"verifharness/simrt"
)

// HistConfig biases the history generator towards one property.
type HistConfig struct {
	MinOps, MaxOps int
	PEdit          float64
	PSumOps        float64
	PStale         float64
	PUnhashable    float64
	PBreak         float64
	PForce         float64
	PAll           float64
	PSubsetGens    float64
	PGenFault      float64 // a run in which a generator fails
	PIOFault       float64 // a run with an injected I/O error
	PKill          float64 // a run killed at a random event
	PMidEdit       float64 // external edit between load and execute
	PConverge      float64
	PGlobals       float64
	PFailAfterEdit float64 // motif: edit, then a failing All run
	PTwoPasses     float64 // two Execute calls with different global tags on one executor
	PCancel        float64 // the caller's context is cancelled at some callback
	PWarm          float64 // before a run, the same process runs the same module in a scratch copy (another directory)
	PRetag         float64 // in-place change of a declaration's tags (never combined with mid-run edits)
	PUniform       float64 // every run uses the same generators, scripts and globals (enables the final-state oracle T5)
	PReal          float64 // a world for the real devpkg generators
	PMute          float64 // a generator that now renders nothing for one package (with or without ErrIgnore)
	PDepOutside    float64 // without All: select a package whose dependencies are not selected
	PLinkOut       float64 // generated files of a package are moved elsewhere and linked in
	PCwd           float64 // gengo is started in a package directory, not in the module root
	PClock         float64 // an edit whose file clock is kept, far in the past or in the future; same-size edit motif
	PProtect       float64 // generated files of a package become read-only, or get clocks from the future / the past
	// Featured: a motif that this history contains for sure (at a drawn position, after a first run), however
	// the dice fall: "fail-after-edit" "clock" "type-error" "retry" "reuse" "protect" "linkout" "stale" "sumops"
	// (simulations rotate through the motifs their configuration enables)
	Featured   string
	Cgo        bool    // one package gets a file that imports "C"
	PReuse     float64 // two runs on one executor (loaded once): the second with other generators or a muted one
	IllTyped   bool    // one package declares a type on an undefined identifier
	PTypeError float64 // motif: an edit, a type error planted in a package it imports, a run in which a generator panics, the repair, a run
	NestedSub  bool    // ... whose module path lies below the main module's path
	TwoModules bool    // a second local module (replace directive or go.work), imported by the main one; entrypoints in the main module
}

func schedOf(policy string, seed uint64) simrt.Schedule {
	return simrt.Schedule{Default: policy, Seed: seed}
}

func drawSched(r *Rng) simrt.Schedule {
	s := simrt.Schedule{Default: "shuf"}
	switch r.Intn(4) {
	case 0:
		s.Default = "asc"
	case 1:
		s.Default = "desc"
	case 2:
		s.Default = fmt.Sprintf("rot:%d", r.Range(1, 3))
	}
	s.Seed = r.U64()
	// the clock gengo reads (if it reads one): a slow machine on which every callback and file-system call
	// takes seconds, a clock that jumps, a frozen one - or the machine's own
	switch r.Intn(6) {
	case 0, 1:
		s.Clock = "slow:2500"
	case 2:
		s.Clock = "jumpy"
	case 3:
		s.Clock = "slow:40"
	}
	if s.Default != "shuf" && s.Clock != "jumpy" {
		s.Seed = 0
	}
	if c := os.Getenv("VERIF_FORCE_CLOCK"); c != "" {
		s.Clock = c // debugging aid
	}
	return s
}

type histWorld struct {
	m     *ModuleSpec
	names []string
	gens  []proto.GenScript
	base  string
	edits int
	// retagged: tags as they will be after the retag ops drawn so far
	retagged map[*Decl][]Tag
}

func (w *histWorld) pkgFile(pi int, name string) string {
	return filepath.Join(w.m.Pkgs[pi].Dir, name)
}

// drawRun draws one run over the world.
func (w *histWorld) drawRun(r *Rng, cfg HistConfig) *RunOp {
	eps := drawEntrypoints(r, w.m)
	args := proto.GenArgs{Entrypoint: spell(r, w.m, eps), Base: w.base, All: r.P(cfg.PAll), Force: r.P(cfg.PForce)}
	if r.P(0.1) && len(w.m.Pkgs) > 1 {
		args.Entrypoint = []string{"./..."}
	}
	if r.P(cfg.PGlobals) {
		args.Globals = drawGlobals(r, w.names)
	}
	gens := []proto.GenScript{w.gens[0]}
	for _, g := range w.gens[1:] {
		if !r.P(cfg.PSubsetGens) || len(w.gens) == 2 {
			gens = append(gens, g)
		}
	}
	if len(gens) == 1 {
		gens = append(gens, w.gens[1])
	}
	if r.P(cfg.PTwoPasses) && (args.Force || !args.All) {
		// a driver that loads once and runs two passes with different global tags on one executor
		run := &RunOp{Args: args, Gens: gens, Sched: drawSched(r), Fresh: r.P(0.5), HasFirstGlobals: true, FirstGlobals: drawGlobals(r, w.names)}
		if run.Args.Globals == nil {
			run.Args.Globals = drawGlobals(r, w.names)
		}
		if r.P(0.4) && len(gens) > 2 {
			// ... and with another set of generators (a subset, in another order)
			fg := []proto.GenScript{gens[0]}
			for _, k := range r.Perm(len(gens) - 1) {
				if r.P(0.6) || len(fg) == 1 {
					fg = append(fg, gens[1+k])
				}
			}
			run.FirstGens = fg
		}
		return run
	}
	if r.P(cfg.PMute) {
		// the generator's behaviour changes between runs (as when its input tags or its code change):
		// for one package it now renders nothing - with ErrIgnore from one type (the previous file must
		// stay) or without (the previous file must go)
		gi := r.Range(1, len(gens)-1)
		if isScripted(&gens[gi]) {
			gens[gi] = muteGen(r, w.m, gens[gi], r.Intn(len(w.m.Pkgs)))
		}
	}
	if !args.All && r.P(cfg.PDepOutside) {
		// select only packages that import something: their dependencies are local but not direct
		var importers []int
		for pi, p := range w.m.Pkgs {
			if len(p.Imports) > 0 && !p.InSub {
				importers = append(importers, pi)
			}
		}
		if len(importers) > 0 {
			args.Entrypoint = spell(r, w.m, []int{Pick(r, importers)})
		}
	}
	run := &RunOp{Args: args, Gens: gens, Sched: drawSched(r), Fresh: r.P(0.5)}
	run.SecondContext = r.P(cfg.PWarm)
	run.ViaRegistry = r.P(0.15)
	if r.P(cfg.PCwd) {
		// started inside a package directory (a go:generate line, "cd cmd/app && gengo ...")
		var dirs []string
		for _, p := range w.m.Pkgs {
			if !p.InSub && p.Dir != "" {
				dirs = append(dirs, p.Dir)
			}
		}
		if len(dirs) > 0 {
			run.Cwd = Pick(r, dirs)
			var eps []string
			for _, pi := range ResolveEntrypoints(w.m, run.Args.Entrypoint) {
				eps = append(eps, w.m.ImportPath(pi))
			}
			run.Args.Entrypoint = eps
		}
	}
	return run
}

// muteGen returns a copy of g that renders nothing for package pi; with
// probability 1/2 one of its types (any position in the sorted order) returns
// ErrIgnore, the others nil or ErrSkip.
func muteGen(r *Rng, m *ModuleSpec, g proto.GenScript, pi int) proto.GenScript {
	out := g
	out.Rules = map[string]proto.Rule{}
	for k, v := range g.Rules {
		out.Rules[k] = v
	}
	out.AliasRules = map[string]proto.Rule{}
	for k, v := range g.AliasRules {
		out.AliasRules[k] = v
	}
	ip := m.ImportPath(pi)
	var named []string
	for _, td := range m.Pkgs[pi].TypeDecls() {
		key := ip + " " + td.Name
		if td.Alias {
			out.AliasRules[key] = proto.Rule{}
			continue
		}
		named = append(named, key)
		out.Rules[key] = proto.Rule{Ret: Pick(r, []string{"", "", "skip"})}
	}
	if len(named) > 0 && r.P(0.5) {
		out.Rules[Pick(r, named)] = proto.Rule{Ret: Pick(r, []string{"ignore", "wrapped-ignore"})}
	}
	return out
}

// injectFault turns run into a faulty run of the given kind.
func (w *histWorld) injectFault(r *Rng, run *RunOp, kind string) {
	switch kind {
	case "gen":
		// some callback of some scripted generator fails or renders garbage
		var gi []int
		for i, g := range run.Gens {
			if isScripted(&g) {
				gi = append(gi, i)
			}
		}
		if len(gi) == 0 {
			return
		}
		g := run.Gens[Pick(r, gi)]
		do := Pick(r, []string{"gen-error", "gen-error", "gen-unparseable", "gen-panic"})
		k := Pick(r, []string{"gen", "gen", "defer", "alias"})
		run.Faults = append(run.Faults, proto.Fault{ExecSeq: -1, Kind: k, Gen: g.Name, Nth: r.Intn(3), Do: do})
	case "io":
		eps := ResolveEntrypoints(w.m, run.Args.Entrypoint)
		pi := Pick(r, eps)
		var g string
		for _, s := range run.Gens {
			if isScripted(&s) {
				g = s.Name
			}
		}
		file := w.pkgFile(pi, w.base+"."+g+".go")
		if r.P(0.7) {
			file += ".tmp" // where the bytes go first (the destination is only renamed into place)
		}
		switch r.Intn(7) {
		case 6:
			run.Faults = append(run.Faults, proto.Fault{ExecSeq: -1, Kind: "os.rename", Path: w.pkgFile(pi, w.base+"."+g+".go.tmp") + " -> " + w.pkgFile(pi, w.base+"."+g+".go"), Phase: "exec", Nth: 0, Do: "errno:" + Pick(r, renameErrnos)})
		case 0:
			run.Faults = append(run.Faults, proto.Fault{ExecSeq: -1, Kind: "os.open", Path: file, Phase: "exec", Nth: 0, Do: "errno:" + Pick(r, openErrnos)})
		case 1:
			run.Faults = append(run.Faults, proto.Fault{ExecSeq: -1, Kind: "os.write", Path: file, Phase: "exec", Nth: r.Intn(40), Do: "short:" + fmt.Sprint(r.Intn(3)) + ":" + Pick(r, writeErrnos)})
		case 2:
			// the save of gengo.sum (the second open of the file in a run: the first is the load)
			if r.P(0.5) {
				run.Faults = append(run.Faults, proto.Fault{ExecSeq: -1, Kind: "os.write", Path: "gengo.sum", Phase: "exec", Nth: 0, Do: "short:" + fmt.Sprint(r.Intn(20)) + ":" + Pick(r, writeErrnos)})
			} else {
				// ... or the file cannot be opened for writing (left behind by another user, a read-only checkout)
				run.Faults = append(run.Faults, proto.Fault{ExecSeq: -1, Kind: "os.open", Path: "gengo.sum", Phase: "exec", Nth: 1, Do: "errno:" + Pick(r, []string{"EACCES", "EPERM", "EROFS", "EACCES", "ENOSPC", "EDQUOT"})})
			}
		case 3:
			// gengo.sum cannot be read
			run.Faults = append(run.Faults, proto.Fault{ExecSeq: -1, Kind: Pick(r, []string{"os.open", "os.read"}), Path: "gengo.sum", Phase: "exec", Nth: 0, Do: "errno:" + Pick(r, readErrnos)})
		case 4:
			run.Faults = append(run.Faults, proto.Fault{ExecSeq: -1, Kind: "os.remove", Path: w.pkgFile(pi, w.base+".old.go"), Phase: "exec", Nth: 0, Do: "errno:" + Pick(r, removeErrnos)})
		case 5:
			// the directory hash of a package cannot read one of its files (second open during load)
			f := w.m.Pkgs[pi].Files[0]
			run.Faults = append(run.Faults, proto.Fault{ExecSeq: -1, Kind: "os.open", Path: w.pkgFile(pi, f.Name), Phase: "load", Nth: 1, Do: "errno:" + Pick(r, readErrnos)})
		}
	case "kill":
		run.Faults = append(run.Faults, proto.Fault{ExecSeq: r.Intn(250), Do: Pick(r, []string{"kill", "kill", "kill-after:1", "signal:TERM", "signal:INT"})})
	case "cancel":
		// the caller's context is cancelled at some callback (gengo may ignore that or fail, but must not
		// return nil from a run it cut short)
		for _, g := range run.Gens {
			if isScripted(&g) {
				run.Faults = append(run.Faults, proto.Fault{ExecSeq: -1, Kind: Pick(r, []string{"gen", "gen", "defer", "new"}), Gen: g.Name, Nth: r.Intn(4), Do: "cancel"})
				break
			}
		}
	case "midedit":
		pi := r.Intn(len(w.m.Pkgs))
		w.edits++
		f := w.m.Pkgs[pi].Files[0]
		content := w.m.FileSource(pi, f, true) + fmt.Sprintf("\n// mid-run edit %d\n", w.edits)
		run.Faults = append(run.Faults, proto.Fault{ExecSeq: -1, Kind: "phase", Path: "before-execute", Nth: 0, Do: "edit", EditPath: w.pkgFile(pi, f.Name), EditContent: content})
	}
}

// DrawHistory draws a history scenario.
func DrawHistory(r *Rng, cfg HistConfig) (*Scenario, *histWorld) {
	base := drawBase(r)
	m, names, gens, _ := drawWorld(r, base)
	if r.P(cfg.PReal) {
		// the real devpkg generators: only the tree-level oracles (T1, T3, T4, S1-S5) apply to them
		m, names = DrawRealModule(r, 1)
		gens = RealGens(names)
		cfg.PGenFault, cfg.PMute, cfg.PFailAfterEdit, cfg.PGlobals = 0, 0, 0, 0
	}
	if cfg.Cgo {
		AddCgoFile(r, m)
	}
	if cfg.IllTyped {
		AddIllTyped(r, m, names)
	}
	if cfg.TwoModules && m.Sub == nil {
		scfg := DrawSpecConfig(r, names, base)
		nMain := len(m.Pkgs)
		addSubModule(r, scfg, m)
		m.Workspace = r.P(0.6)
		if cfg.NestedSub {
			// the other module's path lies BELOW the main module's path (a nested module of a multi-module
			// repository): what is local is a matter of modules, not of import path prefixes
			m.Sub.Path = m.ModPath + "/" + m.Sub.Dir
		}
		// some package of the main module imports the other module's packages
		for _, pi := range r.Perm(nMain)[:r.Range(1, nMain)] {
			m.Pkgs[pi].Imports = append(m.Pkgs[pi].Imports, nMain+r.Intn(2))
		}
		gens = []proto.GenScript{Probe()}
		sc2 := DrawScriptConfig(r)
		for _, n := range names {
			gens = append(gens, DrawScript(r, sc2, m, n))
		}
	}
	w := &histWorld{m: m, names: names, gens: gens, base: base}
	sc := &Scenario{Kind: "history", Module: m, Base: base}
	if cfg.PRetag > 0 {
		cfg.PMidEdit = 0 // (mid-run edits carry file contents rendered from the initial spec)
	}
	if cfg.Featured == "fail-after-edit" && cfg.PUniform > 0 {
		cfg.PUniform = 1 // (what a failed run leaves behind shows in the final state of a history with one set of generators)
	}
	if r.P(cfg.PUniform) {
		sc.UniformGens = true
		cfg.PSubsetGens, cfg.PMute, cfg.PGlobals, cfg.PStale = 0, 0, 0, 0
	}
	var ops []Op
	n := r.Range(cfg.MinOps, cfg.MaxOps)
	planted := map[string]bool{}
	broken := false
	faulty := 0
	featuredAt := -1
	if cfg.Featured != "" {
		featuredAt = r.Range(1, max(1, n-1))
	}
	for len(ops) < n {
		force := ""
		if featuredAt >= 0 && len(ops) >= featuredAt && !broken {
			force, featuredAt = cfg.Featured, -1
		}
		hit := func(motif string, p float64) bool {
			if force != "" {
				return force == motif
			}
			return r.P(p)
		}
		if broken {
			// a run that must fail at load and change nothing, then repair
			ops = append(ops, Op{Kind: "run", Run: w.drawRun(r, cfg)})
			ops = append(ops, Op{Kind: "unbreak", Path: "go.mod", Content: m.GoMod()})
			broken = false
			continue
		}
		switch {
		case hit("retag", cfg.PRetag):
			// a declaration's tags are edited in place: a type enabled so far is disabled (or the other way
			// round); the next run - fresh process or not - must follow the new tags
			if op, ok := w.drawRetag(r); ok {
				ops = append(ops, op)
			}
		case hit("fail-after-edit", cfg.PFailAfterEdit) && faulty < 2:
			// motif: edit a package, then an All run in which a generator fails (first callback of a
			// scripted generator): the failed run must not mark the edited package as done
			pi := r.Intn(len(m.Pkgs))
			w.edits++
			ops = append(ops, Op{Kind: "touch", K: pi, Path: m.Pkgs[pi].Files[0].Name, Note: "before a failing run"})
			run := w.drawRun(r, cfg)
			run.Args.All, run.Args.Force = true, false
			run.Args.Entrypoint = []string{"./..."}
			run.Cwd = ""
			for _, g := range run.Gens {
				if isScripted(&g) {
					run.Faults = append(run.Faults, proto.Fault{ExecSeq: -1, Kind: "gen", Gen: g.Name, Nth: r.Intn(2), Do: Pick(r, []string{"gen-error", "gen-unparseable", "gen-error", "gen-unparseable", "signal:INT", "signal:TERM"})})
					break
				}
			}
			faulty++
			ops = append(ops, Op{Kind: "run", Run: run})
		case hit("edit", cfg.PEdit):
			pi := r.Intn(len(m.Pkgs))
			w.edits++
			switch r.Intn(4) {
			case 0:
				fi := r.Intn(len(m.Pkgs[pi].Files))
				ops = append(ops, Op{Kind: "touch", K: pi, Path: m.Pkgs[pi].Files[fi].Name})
			case 1:
				p := w.pkgFile(pi, fmt.Sprintf("extra_%d.go", w.edits))
				planted[p] = true
				ops = append(ops, Op{Kind: "edit", Path: p, Content: fmt.Sprintf("package %s\n\nfunc Extra%d() {}\n", m.Pkgs[pi].Name, w.edits)})
			case 2:
				p := w.pkgFile(pi, "notes.txt")
				planted[p] = true
				ops = append(ops, Op{Kind: "edit", Path: p, Content: fmt.Sprintf("note %d\n", w.edits)})
			case 3:
				if ks := sortedKeys(planted); len(ks) > 0 {
					p := ks[r.Intn(len(ks))]
					delete(planted, p)
					ops = append(ops, Op{Kind: "delete", Path: p})
				}
			}
		case hit("stale", cfg.PStale):
			pi := r.Intn(len(m.Pkgs))
			w.edits++
			name := Pick(r, []string{"old", "gone", "defaulter"})
			lineDir := ""
			if r.P(0.35) {
				// written by a template tool: positions in it report the template, the file is where it is
				lineDir = "//line " + name + ".go.tmpl:1\n"
			}
			ops = append(ops, Op{Kind: "edit", Note: "stale output", Path: w.pkgFile(pi, base+"."+name+".go"),
				Content: fmt.Sprintf("%spackage %s\n\nvar Stale_%s_%d = 1\n", lineDir, m.Pkgs[pi].Name, name, w.edits)})
		case hit("sumops", cfg.PSumOps):
			if r.P(0.3) {
				ops = append(ops, Op{Kind: "delsum"})
			} else {
				ops = append(ops, Op{Kind: "corruptsum", K: r.Intn(64),
					How: Pick(r, []string{"drop-line", "alter-hash", "truncate", "garbage", "swap-hashes", "crlf", "dup-line-stale", "empty"})})
			}
		case hit("clock", cfg.PClock/2):
			// motif: two edits of one file that differ in content only - same size, same modification time -
			// with a full run in between (whatever remembers files by size and time sees no change)
			pi := r.Intn(len(m.Pkgs))
			f := m.Pkgs[pi].Files[r.Intn(len(m.Pkgs[pi].Files))].Name
			mid := w.drawRun(r, cfg)
			mid.Args.All = true
			again := *mid
			again.Fresh = false
			ops = append(ops, Op{Kind: "touch", K: pi, Path: f, SameSize: true}, Op{Kind: "run", Run: mid}, Op{Kind: "run", Run: &again}, Op{Kind: "touch", K: pi, Path: f, SameSize: true, MTime: "keep"})
		case hit("type-error", cfg.PTypeError) && faulty < 2:
			// package P is edited, a package Q that P imports gets a type error, an All run in which a generator
			// panics (or fails) in P, Q is repaired, an All run: P was never generated from its edited state
			var pairs [][2]int
			for pi, p := range m.Pkgs {
				for _, q := range p.Imports {
					if !p.InSub && !m.Pkgs[q].InSub {
						pairs = append(pairs, [2]int{pi, q})
					}
				}
			}
			var gname string
			for _, g := range w.gens {
				if isScripted(&g) {
					gname = g.Name
				}
			}
			if len(pairs) == 0 || gname == "" {
				break
			}
			pq := Pick(r, pairs)
			bad := w.drawRun(r, cfg)
			bad.HasFirstGlobals, bad.FirstGlobals, bad.FirstGens, bad.Cwd = false, nil, nil, ""
			bad.Gens = w.gens
			bad.Args.All, bad.Args.Force, bad.Args.Entrypoint = true, false, []string{"./..."}
			bad.Faults = []proto.Fault{{ExecSeq: -1, Kind: "gen", Gen: gname, Pkg: m.ImportPath(pq[0]), Nth: 0, Do: Pick(r, []string{"gen-panic", "gen-panic", "gen-error"})}}
			good := *bad
			good.Faults, good.Fresh = nil, true
			// (the tree is at rest first: two full runs)
			rest1, rest2 := good, good
			rest2.Fresh = false
			ops = append(ops, Op{Kind: "run", Run: &rest1}, Op{Kind: "run", Run: &rest2},
				Op{Kind: "touch", K: pq[0], Path: m.Pkgs[pq[0]].Files[0].Name, Note: "before the broken run"},
				Op{Kind: "touch", K: pq[1], Path: m.Pkgs[pq[1]].Files[0].Name, How: "break-types"},
				Op{Kind: "run", Run: bad},
				Op{Kind: "touch", K: pq[1], Path: m.Pkgs[pq[1]].Files[0].Name, Note: "repaired"},
				Op{Kind: "run", Run: &good})
			faulty++
		case hit("retry", cfg.PReuse/3) && len(m.Pkgs) >= 2 && faulty < 2:
			// a retry on the same executor after a failure half-way: the files are there (run 0); in the first
			// call a generator has nothing to say for package A (its file is stale) and fails in package B,
			// which comes later; in the second call, on the same executor, it renders for A again and succeeds
			var main []int
			for pi, p := range m.Pkgs {
				if !p.InSub {
					main = append(main, pi)
				}
			}
			var gi []int
			for k, g := range w.gens {
				if isScripted(&g) {
					gi = append(gi, k)
				}
			}
			if len(main) < 2 || len(gi) == 0 {
				break
			}
			perm := r.Perm(len(main))
			pa, pb := main[perm[0]], main[perm[1]]
			if m.ImportPath(pa) > m.ImportPath(pb) {
				pa, pb = pb, pa
			}
			g := Pick(r, gi)
			run0 := w.drawRun(r, cfg)
			run0.HasFirstGlobals, run0.FirstGlobals, run0.FirstGens, run0.Cwd = false, nil, nil, ""
			run0.Gens = w.gens
			run0.Args.Entrypoint = spell(r, m, []int{pa, pb})
			run0.Args.Force = run0.Args.All
			run1 := *run0
			run1.Fresh, run1.KeepExecutor = true, true
			gens1 := append([]proto.GenScript{}, w.gens...)
			muted := muteGen(r, m, gens1[g], pa)
			for k, rule := range muted.Rules {
				if rule.Ret != "" {
					rule.Ret = ""
					muted.Rules[k] = rule
				}
			}
			gens1[g] = muted
			run1.Gens = gens1
			run1.Faults = []proto.Fault{{ExecSeq: -1, Kind: "gen", Gen: w.gens[g].Name, Pkg: m.ImportPath(pb), Nth: 0, Do: "gen-error"}}
			run2 := *run0
			run2.Fresh, run2.ReuseExecutor = false, true
			run2.Sched = drawSched(r)
			ops = append(ops, Op{Kind: "run", Run: run0}, Op{Kind: "run", Run: &run1}, Op{Kind: "run", Run: &run2})
			faulty++
			// (the first call ran a generator that has stopped rendering: not one set of generators any more,
			// and what a later cached run leaves is then no statement about the final state — T5)
			sc.UniformGens = false
		case cfg.PSumOps > 0 && hit("reuse-delsum", cfg.PReuse/2):
			// a long-lived tool: the tree is at rest, Execute (nothing to do), gengo.sum disappears, Execute
			// again on the same executor - without the file there is no record to trust
			var all []int
			for pi, p := range m.Pkgs {
				if !p.InSub {
					all = append(all, pi)
				}
			}
			run0 := &RunOp{Args: proto.GenArgs{Entrypoint: spell(r, m, all), Base: w.base, All: true}, Gens: w.gens, Sched: drawSched(r), Fresh: true}
			run1 := *run0
			run1.KeepExecutor = true
			run2 := *run0
			run2.Fresh, run2.ReuseExecutor, run2.Sched = false, true, drawSched(r)
			ops = append(ops, Op{Kind: "run", Run: run0}, Op{Kind: "converge", K: 3}, Op{Kind: "run", Run: &run1})
			if r.P(0.7) {
				ops = append(ops, Op{Kind: "delsum"})
			} else {
				ops = append(ops, Op{Kind: "corruptsum", K: r.Intn(64), How: "empty"})
			}
			ops = append(ops, Op{Kind: "run", Run: &run2})
		case hit("reuse", cfg.PReuse):
			// a tool that loads once and calls Execute twice: after a failure, with fewer generators, or
			// with a generator that has nothing to say any more
			run1 := w.drawRun(r, cfg)
			run1.HasFirstGlobals, run1.FirstGlobals, run1.FirstGens = false, nil, nil
			run1.KeepExecutor = true
			if faulty < 2 && r.P(0.4) {
				w.injectFault(r, run1, "gen")
				for k := range run1.Faults {
					if run1.Faults[k].Do == "gen-panic" {
						run1.Faults[k].Do = "gen-error" // (the process has to survive)
					}
				}
				faulty++
			}
			run2 := *run1
			run2.Faults, run2.Fresh, run2.GoMaxProcs = nil, false, 0
			run2.KeepExecutor, run2.ReuseExecutor = r.P(0.3), true
			run2.Sched = drawSched(r)
			gens2 := append([]proto.GenScript{}, run1.Gens...)
			switch r.Intn(3) {
			case 0:
				if len(gens2) > 2 {
					k := r.Range(1, len(gens2)-1)
					gens2 = append(gens2[:k:k], gens2[k+1:]...)
				}
			case 1:
				gi := r.Range(1, len(gens2)-1)
				if isScripted(&gens2[gi]) {
					gens2[gi] = muteGen(r, w.m, gens2[gi], r.Intn(len(w.m.Pkgs)))
				}
			}
			run2.Gens = gens2
			if !sameGens(gens2, run1.Gens) {
				sc.UniformGens = false // (see above: a silent or missing generator is another set of generators)
			}
			if r.P(0.4) {
				// the other way round: the FIRST call has the silent (or missing) generator, the second one renders again
				run1.Gens, run2.Gens = gens2, run1.Gens
				for k := range run1.Faults {
					// (a fault plan addresses generators by name: keep it on one that is still there)
					found := false
					for _, g := range run1.Gens {
						found = found || g.Name == run1.Faults[k].Gen
					}
					if !found && len(run1.Gens) > 1 {
						run1.Faults[k].Gen = run1.Gens[len(run1.Gens)-1].Name
					}
				}
			}
			if run2.Args.All {
				run2.Args.Force = true // (the kept executor compares hashes from before the first call)
			}
			ops = append(ops, Op{Kind: "run", Run: run1}, Op{Kind: "run", Run: &run2})
		case hit("protect", cfg.PProtect):
			pi := r.Intn(len(m.Pkgs))
			var follow *Op
			if cfg.PRetag > 0 && r.P(0.5) {
				if op, ok := w.drawRetag(r); ok {
					pi, follow = op.K, &op
				}
			}
			if r.P(0.5) {
				ops = append(ops, Op{Kind: "protect", K: pi})
			} else {
				ops = append(ops, Op{Kind: "outclock", K: pi, How: Pick(r, []string{"future", "future", "old"})})
			}
			// and the package is edited (or its tags change), so that it is generated again
			if follow != nil {
				ops = append(ops, *follow)
			} else if r.P(0.7) {
				ops = append(ops, Op{Kind: "touch", K: pi, Path: m.Pkgs[pi].Files[0].Name, Note: "after " + ops[len(ops)-1].Kind})
			}
		case hit("linkout", cfg.PLinkOut):
			ops = append(ops, Op{Kind: "linkout", K: r.Intn(len(m.Pkgs))})
			if r.P(0.7) {
				// and the package is edited, so that it is generated again
				pi := ops[len(ops)-1].K
				ops = append(ops, Op{Kind: "touch", K: pi, Path: m.Pkgs[pi].Files[0].Name, Note: "after linkout"})
			}
		case hit("unhashable", cfg.PUnhashable):
			pi := r.Intn(len(m.Pkgs))
			p := w.pkgFile(pi, ".#doc.go")
			planted[p] = true
			ops = append(ops, Op{Kind: "unhashable", Path: p})
		case hit("break", cfg.PBreak):
			ops = append(ops, Op{Kind: "break", Path: "go.mod", Content: "modul broken ][\n"})
			broken = true
		default:
			run := w.drawRun(r, cfg)
			if faulty < 2 {
				switch {
				case r.P(cfg.PGenFault):
					w.injectFault(r, run, "gen")
					faulty++
				case r.P(cfg.PIOFault):
					w.injectFault(r, run, "io")
					faulty++
				case r.P(cfg.PKill):
					w.injectFault(r, run, "kill")
					faulty++
				case r.P(cfg.PMidEdit):
					w.injectFault(r, run, "midedit")
				case r.P(cfg.PCancel):
					w.injectFault(r, run, "cancel")
				}
			}
			if r.P(cfg.PWarm) {
				// the same process has served the same module from ANOTHER directory just before
				wr := *run
				wr.Faults = nil
				ops = append(ops, Op{Kind: "warm", Run: &wr})
				run.Fresh = false
			}
			ops = append(ops, Op{Kind: "run", Run: run})
		}
	}
	for k := range ops {
		switch ops[k].Kind {
		case "edit", "touch", "retag":
			if ops[k].MTime == "" && r.P(cfg.PClock) {
				ops[k].MTime = Pick(r, []string{"keep", "past", "past", "future"})
			}
		}
	}
	if broken {
		ops = append(ops, Op{Kind: "run", Run: w.drawRun(r, cfg)})
		ops = append(ops, Op{Kind: "unbreak", Path: "go.mod", Content: m.GoMod()})
	}
	// faults are only interesting for what the next run does with the state they left
	final := w.drawRun(r, cfg)
	final.Args.All = true
	final.Args.Force = false
	ops = append(ops, Op{Kind: "run", Run: final})
	if r.P(cfg.PConverge) {
		ops = append(ops, Op{Kind: "converge", K: 3})
	}
	sc.Variants = []Variant{{Name: "history", Ops: ops}}
	return sc, w
}

// drawRetag flips the enabling tag of one tagged type declaration, keeping the number of tag lines.
func (w *histWorld) drawRetag(r *Rng) (Op, bool) {
	m := w.m
	if w.retagged == nil {
		w.retagged = map[*Decl][]Tag{}
	}
	type cand struct {
		pi int
		d  *Decl
	}
	var cands []cand
	for pi, p := range m.Pkgs {
		var visit func(ds []*Decl)
		visit = func(ds []*Decl) {
			for _, d := range ds {
				switch d.Kind {
				case "grouped":
					visit(d.Group)
				case "struct", "scalar", "mapt", "slice", "functype", "iface", "alias", "generic":
					if len(w.tagsOf(d)) > 0 {
						cands = append(cands, cand{pi, d})
					}
				}
			}
		}
		for _, f := range p.Files {
			visit(f.Decls)
		}
	}
	if len(cands) == 0 {
		return Op{}, false
	}
	c := Pick(r, cands)
	tags := append([]Tag{}, w.tagsOf(c.d)...)
	k := r.Intn(len(tags))
	t := tags[k]
	if t.Sep == "=" && t.Val == "false" {
		t.Sep, t.Val = "", ""
	} else {
		t.Sep, t.Val = "=", "false"
	}
	tags[k] = t
	// remember the edit for later draws; the scenario's module keeps the INITIAL tags
	w.retagged[c.d] = tags
	return Op{Kind: "retag", K: c.pi, Path: c.d.Name, Tags: tags}, true
}

func (w *histWorld) tagsOf(d *Decl) []Tag {
	if t, ok := w.retagged[d]; ok {
		return t
	}
	return d.Tags
}

func opKinds(ops []Op) string {
	s := ""
	for _, o := range ops {
		k := o.Kind
		if o.Run != nil {
			k = "run"
			if o.Run.Args.All {
				k += "A"
			}
			if o.Run.Args.Force {
				k += "F"
			}
			for _, f := range o.Run.Faults {
				k += "!" + f.Do
				if f.Kind != "" {
					k += "@" + f.Kind
				}
			}
		}
		if o.How != "" {
			k += ":" + o.How
		}
		s += k + " "
	}
	return s
}

func runHistory(c *CheckCtx, i int, r *Rng, cfg HistConfig) error {
	if cfg.Featured == "" {
		// every second simulation features one of the motifs its configuration enables, in rotation
		var enabled []string
		for _, mo := range []struct {
			name string
			p    float64
		}{{"fail-after-edit", cfg.PFailAfterEdit}, {"clock", cfg.PClock}, {"type-error", cfg.PTypeError}, {"retry", cfg.PReuse}, {"reuse", cfg.PReuse}, {"reuse-delsum", min(cfg.PReuse, cfg.PSumOps)},
			{"protect", cfg.PProtect}, {"linkout", cfg.PLinkOut}, {"stale", cfg.PStale}, {"sumops", cfg.PSumOps}, {"retag", cfg.PRetag}} {
			if mo.p > 0 {
				enabled = append(enabled, mo.name)
			}
		}
		if len(enabled) > 0 && i%2 == 1 {
			cfg.Featured = enabled[(i/2)%len(enabled)]
		}
	}
	sc, w := DrawHistory(r, cfg)
	sc.LinkedRoot = i%8 == 5
	out, err := c.RunScenario(sc, i)
	if err != nil {
		return err
	}
	work := false
	for _, st := range out.Records["history"] {
		if len(st.Executed) > 0 {
			work = true
		}
	}
	if work {
		c.Env.Stats.Fingerprint(fmt.Sprintf("%d pkgs/%s", len(w.m.Pkgs), opKinds(sc.Variants[0].Ops)))
	} else {
		c.Env.Stats.Add("trivial-simulations", 1)
	}
	c.Env.Stats.Sample(map[string]any{"sim": i, "module": w.m.ModPath, "packages": len(w.m.Pkgs), "generators": w.names, "base": w.base, "ops": opKinds(sc.Variants[0].Ops)}, 3)
	for _, p := range w.m.Pkgs {
		l, t := p.HasShadow()
		if l {
			c.Env.Stats.Add("probe/local-type-shadows", 1)
		}
		if t {
			c.Env.Stats.Add("probe/typeparam-shadows", 1)
		}
	}
	return nil
}

// SimC06: dispatch of GenerateType/GenerateAliasType/Defer over the tag lattice
// and declaration kinds, under adversarial map orders.
func SimC06(c *CheckCtx, i int, r *Rng) error {
	cgo := i%50 == 12 && c.Env.CgoUsable()
	ill := i%9 == 4
	if cgo {
		c.Env.Stats.Add("probe/cgo-world", 1)
	}
	if ill {
		c.Env.Stats.Add("probe/ill-typed-package-world", 1)
	}
	return runHistory(c, i, r, HistConfig{Cgo: cgo, IllTyped: ill, MinOps: 1, MaxOps: 4, PAll: 0.6, PForce: 0.5, PGlobals: 0.5, PSubsetGens: 0.2, PEdit: 0.1, PRetag: 0.3, PCancel: 0.15, PWarm: 0.05, PTwoPasses: 0.25, PGenFault: 0.15, PProtect: 0.12, PReuse: 0.12})
}

// SimC07: gengo only touches its own output files.
func SimC07(c *CheckCtx, i int, r *Rng) error {
	if i%3 == 2 {
		// cache-centred histories touch the tree in other ways (subset runs, corrupt sums)
		return SimC08(c, i, r)
	}
	two := i%12 == 7
	if two {
		c.Env.Stats.Add("probe/two-module-world", 1)
	}
	if two && (i/12)%2 == 1 {
		c.Env.Stats.Add("probe/two-module-world/nested-path", 1)
	}
	return runHistory(c, i, r, HistConfig{TwoModules: two, NestedSub: two && (i/12)%2 == 1, MinOps: 3, MaxOps: 7, PAll: 0.6, PForce: 0.3, PGlobals: 0.2, PSubsetGens: 0.5, PEdit: 0.15, PStale: 0.25,
		PSumOps: 0.05, PBreak: 0.08, PGenFault: 0.12, PIOFault: 0.12, PKill: 0.1, PConverge: 0.2, PMute: 0.35, PDepOutside: 0.5, PReal: 0.1, PUniform: 0.3, PCancel: 0.05, PWarm: 0.1, PLinkOut: 0.1, PCwd: 0.2, PClock: 0.1, PProtect: 0.08, PReuse: 0.15, PFailAfterEdit: 0.08})
}

// SimC08: the gengo.sum cache against the reference model.
func SimC08(c *CheckCtx, i int, r *Rng) error {
	if i%10 == 7 {
		return simWide(c, i, r)
	}
	return runHistory(c, i, r, HistConfig{MinOps: 4, MaxOps: 9, PAll: 0.85, PForce: 0.15, PGlobals: 0.1, PSubsetGens: 0.2, PEdit: 0.3, PStale: 0.05,
		PSumOps: 0.2, PUnhashable: 0.06, PBreak: 0.04, PGenFault: 0.1, PIOFault: 0.12, PKill: 0.08, PMidEdit: 0.1, PConverge: 0.6, PFailAfterEdit: 0.12, PMute: 0.1, PReal: 0.08, PUniform: 0.4, PCancel: 0.04, PWarm: 0.06, PCwd: 0.1, PClock: 0.25, PProtect: 0.06, PTypeError: 0.06, PReuse: 0.08})
}

// simWide: a module with many local packages (a size no small world reaches: code that switches
// strategy above a threshold, e.g. a worker pool, is only exercised here) and very uneven package
// directories. Runs, an edit of one package, runs: exactly that package is regenerated, and gengo.sum
// carries every package's own load-time hash.
func simWide(c *CheckCtx, i int, r *Rng) error {
	base := "zz_generated"
	n := r.Range(17, 26)
	m := &ModuleSpec{ModPath: "example.com/wide", GoVer: "1.24"}
	for k := 0; k < n; k++ {
		dir := fmt.Sprintf("p%02d", k)
		p := &PkgSpec{Dir: dir, Name: dir, Anchor: fmt.Sprintf("Anchor%d", k), DocTags: []Tag{{Marker: "+", Key: "gengo:x"}}}
		p.Files = []*SrcFile{{Name: "doc.go", Decls: []*Decl{{Kind: "struct", Name: p.Anchor}}}}
		m.Pkgs = append(m.Pkgs, p)
	}
	// uneven hashing time: a few directories hold large assets
	for k := 0; k < 3; k++ {
		pi := r.Intn(n)
		m.Pre = append(m.Pre, PreFile{Path: fmt.Sprintf("p%02d/assets-%d.bin", pi, k), Content: strings.Repeat(fmt.Sprintf("%064d", k), (1+r.Intn(4))*16384)})
	}
	scfg := DrawScriptConfig(r)
	scfg.PRefs, scfg.PDocRef = 0, 0
	gens := []proto.GenScript{Probe(), DrawScript(r, scfg, m, "x")}
	mk := func(fresh bool) *RunOp {
		return &RunOp{Args: proto.GenArgs{Entrypoint: []string{"./..."}, Base: base, All: true}, Gens: gens, Sched: drawSched(r), Fresh: fresh}
	}
	var ops []Op
	ops = append(ops, Op{Kind: "run", Run: mk(true)}, Op{Kind: "run", Run: mk(true)}, Op{Kind: "converge", K: 3})
	for k := 0; k < 2; k++ {
		ops = append(ops, Op{Kind: "touch", K: r.Intn(n), Path: "doc.go"}, Op{Kind: "run", Run: mk(r.P(0.5))}, Op{Kind: "run", Run: mk(true)})
	}
	sc := &Scenario{Kind: "history", Module: m, Base: base, UniformGens: true, Variants: []Variant{{Name: "history", Ops: ops}}}
	if _, err := c.RunScenario(sc, i); err != nil {
		return err
	}
	c.Env.Stats.Add("probe/wide-module", 1)
	c.Env.Stats.Fingerprint(fmt.Sprintf("wide/%d pkgs", n))
	return nil
}

// sameGens: the two generator lists script the same behaviour (same names, same rules).
func sameGens(a, b []proto.GenScript) bool {
	ja, _ := json.Marshal(a)
	jb, _ := json.Marshal(b)
	return string(ja) == string(jb)
}
