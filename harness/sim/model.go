package sim

// CacheModel is the reference model of gengo.sum (C08). The driver hashes every
// local package directory itself before each run and remembers which content
// (the files directly in the directory) each hash stood for. A line
// "<path> <hash>" of gengo.sum therefore vouches for a known content, and a
// package may be skipped only if some line for it vouches for exactly the
// content the directory has now. The model never trusts what gengo computed.
type CacheModel struct {
	Known map[string]map[string]map[string]string // package path -> hash -> files directly in the directory
	// Done: the directory contents (at load time) for which the package's
	// generation has completed in some run. A line of gengo.sum may only be
	// trusted for a content that was really generated: a failed run must not
	// "mark work as done".
	Done map[string][]map[string]string
}

func NewCacheModel() *CacheModel {
	return &CacheModel{Known: map[string]map[string]map[string]string{}, Done: map[string][]map[string]string{}}
}

// MarkDone records that package p was generated completely from content.
func (c *CacheModel) MarkDone(p string, content map[string]string) {
	if !c.IsDone(p, content) {
		c.Done[p] = append(c.Done[p], content)
	}
}

// IsDone reports whether p has been generated completely from exactly content.
func (c *CacheModel) IsDone(p string, content map[string]string) bool {
	for _, d := range c.Done[p] {
		if sameFiles(d, content) {
			return true
		}
	}
	return false
}

func (c *CacheModel) Clone() *CacheModel {
	n := NewCacheModel()
	for p, hs := range c.Known {
		n.Known[p] = map[string]map[string]string{}
		for h, files := range hs {
			n.Known[p][h] = files // contents are never mutated
		}
	}
	for p, ds := range c.Done {
		n.Done[p] = append([]map[string]string{}, ds...)
	}
	return n
}

// Observe records that the directory of package p hashed to h while it held content.
func (c *CacheModel) Observe(p, h string, content map[string]string) {
	if h == "" {
		return
	}
	if c.Known[p] == nil {
		c.Known[p] = map[string]map[string]string{}
	}
	c.Known[p][h] = content
}

// Vouches reports whether one of the hashes recorded for p stands for the
// content the directory has now.
func (c *CacheModel) Vouches(p string, lineHashes []string, now map[string]string) bool {
	for _, h := range lineHashes {
		if files, ok := c.Known[p][h]; ok && sameFiles(files, now) {
			return true
		}
	}
	return false
}

// AfterExternal is kept for call sites; the model needs no update when files
// change, because it is keyed by what the driver hashed, not by history.
func (c *CacheModel) AfterExternal(root string) {}
