package sim

import (
	"os"
	"path/filepath"
)

// CacheModel is the reference model of gengo.sum (C08): for each package the
// content of its directory that a line of the current gengo.sum vouches for.
// It has no hashing logic of its own beyond remembering the hash string the
// driver computed when the entry was recorded.
type CacheModel struct {
	Rec     map[string]map[string]string // package path -> files directly in its directory, as recorded
	RecHash map[string]string            // package path -> driver's directory hash at that time ("" if unhashable)
}

func NewCacheModel() *CacheModel {
	return &CacheModel{Rec: map[string]map[string]string{}, RecHash: map[string]string{}}
}

func (c *CacheModel) Clone() *CacheModel {
	n := NewCacheModel()
	for k, v := range c.Rec {
		cp := map[string]string{}
		for a, b := range v {
			cp[a] = b
		}
		n.Rec[k] = cp
	}
	for k, v := range c.RecHash {
		n.RecHash[k] = v
	}
	return n
}

// AfterExternal re-validates the entries against the gengo.sum now on disk: an
// entry survives only while a line "<path> <recorded hash>" is still there.
// This one rule covers deletion, every kind of corruption, and files left
// behind by failed or killed runs.
func (c *CacheModel) AfterExternal(root string) {
	data, err := os.ReadFile(filepath.Join(root, "gengo.sum"))
	if err != nil {
		c.Rec = map[string]map[string]string{}
		c.RecHash = map[string]string{}
		return
	}
	lines := ParseSumLines(data)
	for p, h := range c.RecHash {
		ok := false
		if h != "" {
			for _, lh := range lines[p] {
				if lh == h {
					ok = true
				}
			}
		}
		if !ok {
			delete(c.Rec, p)
			delete(c.RecHash, p)
		}
	}
}

// Commit records a successful All run: gengo.sum was rewritten wholesale for
// the local packages of that run, from the state at load time.
func (c *CacheModel) Commit(local []string, content map[string]map[string]string, hload map[string]string) {
	c.Rec = map[string]map[string]string{}
	c.RecHash = map[string]string{}
	for _, p := range local {
		c.Rec[p] = content[p]
		c.RecHash[p] = hload[p]
	}
}
