package sim

import (
	"fmt"
	"path/filepath"
	"strings"

	"verifharness/proto"
	"verifharness/simrt"
)

var genNamePool = [][]string{
	{"x"}, {"x", "xy"}, {"a", "ab", "a:b"}, {"alpha"}, {"x", "x:y"}, {"g1", "g2"},
}

// drawWorld draws the common ingredients of a gensim scenario.
func drawWorld(r *Rng, base string) (*ModuleSpec, []string, []proto.GenScript, ScriptConfig) {
	names := Pick(r, genNamePool)
	cfg := DrawSpecConfig(r, names, base)
	m := DrawModule(r, cfg)
	scfg := DrawScriptConfig(r)
	gens := []proto.GenScript{Probe()}
	for _, n := range names {
		gens = append(gens, DrawScript(r, scfg, m, n))
	}
	return m, names, gens, scfg
}

func drawGlobals(r *Rng, names []string) map[string][]string {
	if !r.P(0.3) {
		return nil
	}
	g := map[string][]string{}
	for _, n := range names {
		if r.P(0.5) {
			t := drawTag(r, n, true)
			g[t.Key] = []string{t.Value()}
		}
	}
	if len(g) == 0 {
		return nil
	}
	return g
}

// drawEntrypoints picks a non-empty subset of packages.
func drawEntrypoints(r *Rng, m *ModuleSpec) []int {
	var out []int
	n := len(m.Pkgs)
	if m.Sub != nil {
		// (the packages of the second module come last; runs are started for packages of the main module,
		// the other module only takes part through imports)
		for n > 0 && m.Pkgs[n-1].InSub {
			n--
		}
	}
	for i := 0; i < n; i++ {
		if r.P(0.6) {
			out = append(out, i)
		}
	}
	if len(out) == 0 {
		out = []int{r.Intn(n)}
	}
	return out
}

func spell(r *Rng, m *ModuleSpec, pis []int) []string {
	var out []string
	for _, pi := range pis {
		out = append(out, EntrySpelling(r, m, pi))
	}
	return out
}

func drawBase(r *Rng) string {
	return Pick(r, []string{"zz_generated", "zz_generated", "gen", "zz.out", "zz-gen", "gen_v1.2"})
}

// SimC04: one world executed under different schedules, entrypoint orders and
// process histories must end in the same bytes (D1-D3, D5, D6) and re-running
// is a fixed point (D4).
func SimC04(c *CheckCtx, i int, r *Rng) error {
	base := drawBase(r)
	m, names, gens, _ := drawWorld(r, base)
	real := i%4 == 3
	if real {
		// the real devpkg generators: byte-determinism and the fixed point of the
		// generators users actually run (C17's "same on the first and on later runs")
		m, names = DrawRealModule(r, 1)
		gens = RealGens(names)
		c.Env.Stats.Add("probe/real-generators-world", 1)
	}
	walk := false
	if !real && i%9 == 7 {
		// handlers of several packages over shared recursive helpers, rendered through Package.ResultsOf
		m, names, gens = walkWorld(r, base)
		walk = true
		c.Env.Stats.Add("probe/shared-helper-results-world", 1)
	}
	clash := false
	if !real && !walk && i%5 == 2 {
		// import names that have to be disambiguated: aliases must not depend on map order or on what
		// the process generated before
		m, names, gens = clashWorld(r, base)
		clash = true
		c.Env.Stats.Add("probe/import-name-clash-world", 1)
	}
	// bias: map-valued arguments exercise the dumper's key order
	if r.P(0.6) {
		for gi := range gens {
			for _, k := range sortedKeys(gens[gi].Rules) {
				rule := gens[gi].Rules[k]
				if len(rule.Render) > 0 && r.P(0.4) {
					rule.Render = append(rule.Render, proto.Part{Text: "\nvar Lit_" + sanitize(gens[gi].Name+"_"+k) + " = "}, proto.Part{Value: Pick(r, append([]string{"clash-values", "clash-values-int"}, ValueKinds...))}, proto.Part{Text: "\n"})
					gens[gi].Rules[k] = rule
				}
			}
		}
	}
	contradict := false
	if !real && !clash && i%6 == 4 {
		// the package comment of a second file contradicts the first one (the same tag, on in one file and
		// off in the other): whichever way the library resolves that, it resolves it the same way every time
		for _, p := range m.Pkgs {
			if len(p.Files) < 2 || len(p.DocTags) == 0 {
				continue
			}
			p.DupDocTags = nil
			for _, t := range p.DocTags {
				o := t
				if o.Sep == "=" && o.Val == "false" {
					o.Sep, o.Val = "", ""
				} else {
					o.Sep, o.Val = "=", "false"
				}
				p.DupDocTags = append(p.DupDocTags, o)
			}
			contradict = true
		}
		if contradict {
			c.Env.Stats.Add("probe/contradicting-package-tags-world", 1)
		}
	}
	eps := drawEntrypoints(r, m)
	if clash {
		// (the package that mentions both clashing paths takes part, unless the next lines say otherwise)
		has := false
		for _, e := range eps {
			has = has || e == 2
		}
		if !has {
			eps = append(eps, 2)
		}
	}
	if clash && r.P(0.35) {
		// the package that mentions only one of the two clashing paths, generated without - or, where it
		// sorts first, before - the package that mentions both
		if m.Pkgs[2].Dir > m.Pkgs[3].Dir {
			eps = []int{2, 3}
		} else {
			eps = []int{3}
		}
	}
	args := proto.GenArgs{Entrypoint: spell(r, m, eps), Base: base, All: r.P(0.8), Force: r.P(0.3), Globals: drawGlobals(r, names)}
	if real {
		args.Globals = nil
	}
	mkRun := func(sched simrt.Schedule, entry []string, fresh bool) *RunOp {
		a := args
		a.Entrypoint = entry
		return &RunOp{Args: a, Gens: gens, Sched: sched, Fresh: fresh}
	}
	sc := &Scenario{Kind: "compare-bytes", Module: m, Base: base, OnlyOwnOracles: contradict}
	renameCase := !real && i%4 == 1
	if renameCase {
		// the world holds outputs written by OTHER versions of the generators, every run is forced: each
		// output is replaced by a file of another length (what a fallback that writes into the old file
		// instead of renaming over it gets wrong)
		old := []proto.GenScript{gens[0]}
		scfg := DrawScriptConfig(r)
		for k := 1; k < len(gens); k++ {
			if !isScripted(&gens[k]) {
				old = append(old, gens[k])
				continue
			}
			g := DrawScript(r, scfg, m, gens[k].Name)
			g.Impl, g.NoAlias = gens[k].Impl, gens[k].NoAlias
			old = append(old, g)
		}
		args.Force = true
		setupRun := mkRun(simrt.Schedule{Default: "asc"}, args.Entrypoint, true)
		setupRun.Gens = old
		sc.Setup = []Op{{Kind: "run", Run: setupRun}}
	} else if r.P(0.3) {
		// start from a world that already holds outputs of an earlier run
		sc.Setup = []Op{{Kind: "run", Run: mkRun(simrt.Schedule{Default: "asc"}, args.Entrypoint, true)}}
	}
	asc := simrt.Schedule{Default: "asc"}
	sc.Variants = append(sc.Variants,
		Variant{Name: "base:asc", Ops: []Op{{Kind: "run", Run: mkRun(asc, args.Entrypoint, true)}}},
		Variant{Name: "control:asc", Ops: []Op{{Kind: "run", Run: mkRun(asc, args.Entrypoint, true)}}},
		Variant{Name: "control:gomaxprocs1", Ops: []Op{{Kind: "run", Run: withProcs(mkRun(asc, args.Entrypoint, true), 1)}}},
		Variant{Name: "control:gomaxprocs3", Ops: []Op{{Kind: "run", Run: withProcs(mkRun(asc, args.Entrypoint, true), 3)}}},
		Variant{Name: "sched:desc", Ops: []Op{{Kind: "run", Run: mkRun(simrt.Schedule{Default: "desc"}, args.Entrypoint, true)}}},
	)
	nShuf := 2
	if c.Tier == "thorough" {
		nShuf = 5
	}
	for k := 0; k < nShuf; k++ {
		s := simrt.Schedule{Default: "shuf", Seed: r.U64()}
		if r.P(0.3) {
			s.Default = fmt.Sprintf("rot:%d", r.Range(1, 3))
		}
		sc.Variants = append(sc.Variants, Variant{Name: fmt.Sprintf("sched:%s:%d", s.Default, k), Ops: []Op{{Kind: "run", Run: mkRun(s, args.Entrypoint, true)}}})
	}
	if len(eps) > 1 {
		perm := r.Perm(len(eps))
		var pe []int
		for _, k := range perm {
			pe = append(pe, eps[k])
		}
		sc.Variants = append(sc.Variants, Variant{Name: "perm:entrypoints", Ops: []Op{{Kind: "run", Run: mkRun(asc, spell(r, m, pe), true)}}})
	}
	// the same generator SET handed over in another order (each generator owns its own file)
	if len(gens) > 2 {
		pg := []proto.GenScript{gens[0]}
		for _, k := range r.Perm(len(gens) - 1) {
			pg = append(pg, gens[1+k])
		}
		run := mkRun(asc, args.Entrypoint, true)
		run.Gens = pg
		sc.Variants = append(sc.Variants, Variant{Name: "perm:generators", Ops: []Op{{Kind: "run", Run: run}}})
	}
	// the n-th run of a process that has already served other runs
	sc.Variants = append(sc.Variants, Variant{Name: "proc:warm", Ops: []Op{
		{Kind: "warm", Run: mkRun(simrt.Schedule{Default: "desc"}, args.Entrypoint, true)},
		{Kind: "run", Run: mkRun(asc, args.Entrypoint, false)},
	}})
	// ... or in a process in which another context over a copy of the module is alive and executed first
	sec := mkRun(asc, args.Entrypoint, true)
	sec.SecondContext = true
	sc.Variants = append(sc.Variants, Variant{Name: "proc:second-context", Ops: []Op{{Kind: "run", Run: sec}}})
	// a run hit by one I/O error on an output file, then the same run again: eventually the same files
	if !real {
		var g string
		for _, gs := range gens {
			if isScripted(&gs) {
				g = gs.Name
			}
		}
		pi := Pick(r, eps)
		tmp := filepath.Join(m.Pkgs[pi].Dir, base+"."+g+".go.tmp")
		faulty := mkRun(asc, args.Entrypoint, true)
		kind := Pick(r, []string{"os.open", "os.write", "os.rename"})
		faulty.Faults = []proto.Fault{{ExecSeq: -1, Kind: kind, Path: tmp, Phase: "exec", Nth: 0, Do: "errno:" + Pick(r, errnosFor(kind))}}
		if renameCase {
			// the destination cannot be renamed over: it is a mount point (EBUSY), on another device (EXDEV), immutable (EPERM)
			kind = "os.rename"
			faulty.Faults[0].Kind, faulty.Faults[0].Do = kind, "errno:"+[]string{"EBUSY", "EXDEV", "EPERM", "EBUSY", "ETXTBSY"}[(i/4)%5] // (by turns: what a detection needs is enumerated, not drawn)
		}
		if kind == "os.rename" {
			faulty.Faults[0].Path = tmp + " -> " + strings.TrimSuffix(tmp, ".tmp")
		}
		again := mkRun(asc, args.Entrypoint, false) // not forced: a failed run must not have been recorded as done
		sc.Variants = append(sc.Variants, Variant{Name: "eventual:io-fault", Ops: []Op{{Kind: "run", Run: faulty}, {Kind: "run", Run: again}}})
		// the caller gives up (cancels its context) while a callback is running, then runs again in the
		// same process: whatever the first call did or did not finish, the end state is the same
		cancelled := mkRun(asc, args.Entrypoint, true)
		cancelled.Faults = []proto.Fault{{ExecSeq: -1, Kind: Pick(r, []string{"gen", "gen", "new"}), Gen: g, Nth: r.Intn(3), Do: "cancel"}}
		sc.Variants = append(sc.Variants, Variant{Name: "eventual:cancelled", Ops: []Op{{Kind: "run", Run: cancelled}, {Kind: "run", Run: mkRun(asc, args.Entrypoint, false)}}})
	}
	// ... and that has generated OTHER packages of the module before (in a scratch copy of the world)
	allEps := make([]int, len(m.Pkgs))
	for k := range allEps {
		allEps[k] = k
	}
	sc.Variants = append(sc.Variants, Variant{Name: "proc:warm-all", Ops: []Op{
		{Kind: "warm", Run: mkRun(asc, spell(r, m, allEps), true)},
		{Kind: "run", Run: mkRun(asc, args.Entrypoint, false)},
	}})
	if !real && i%3 == 0 {
		// the same history of runs and in-place edits (same size, same modification time: nothing but the
		// content tells the versions apart), once with every run in a fresh process and once in one
		// process: whatever a process remembers about files, both end in the same tree
		pi := Pick(r, eps)
		f := m.Pkgs[pi].Files[0].Name
		hist := func(fresh bool) []Op {
			a := args
			a.All, a.Force = true, false
			run := func(first bool) Op {
				return Op{Kind: "run", Run: &RunOp{Args: a, Gens: gens, Sched: asc, Fresh: fresh || first}}
			}
			// (two runs after the first edit: the second one finds nothing to do and leaves the tree at rest)
			return []Op{run(true), {Kind: "touch", K: pi, Path: f, SameSize: true}, run(false), run(false), {Kind: "touch", K: pi, Path: f, SameSize: true, MTime: "keep"}, run(false)}
		}
		sc.Variants = append(sc.Variants, Variant{Name: "pair:edits:fresh-processes", Ops: hist(true)}, Variant{Name: "pair:edits:one-process", Ops: hist(false)})
	}
	if !real && (walk || i%4 == 2) {
		// an incremental run (everything cached but one edited package) ends in the same files as a forced
		// run over the same tree: what a package's file says does not depend on which other packages
		// happened to be regenerated with it
		pi := r.Intn(len(m.Pkgs))
		if walk {
			pi = 0 // the shared helpers
		}
		f := m.Pkgs[pi].Files[0].Name
		hist := func(force bool) []Op {
			a := args
			a.All, a.Force = true, false
			a.Entrypoint = []string{"./..."}
			run := func(forced bool) Op {
				b := a
				b.Force = forced
				return Op{Kind: "run", Run: &RunOp{Args: b, Gens: gens, Sched: asc, Fresh: true}}
			}
			// (the first run is forced: whatever the world held before - outputs of other generator versions -
			// is replaced; the cache knows nothing about generator versions)
			return []Op{run(true), run(false), {Kind: "touch", K: pi, Path: f, Note: "one package edited"}, run(force)}
		}
		sc.Variants = append(sc.Variants, Variant{Name: "pair:incremental:cached", Ops: hist(false)}, Variant{Name: "pair:incremental:forced", Ops: hist(true)})
	}
	if clash {
		// ... nor on which single package the process generated before (in a scratch copy)
		for pi := 2; pi < len(m.Pkgs); pi++ {
			sc.Variants = append(sc.Variants, Variant{Name: fmt.Sprintf("proc:warm-one:%d", pi), Ops: []Op{
				{Kind: "warm", Run: mkRun(asc, spell(r, m, []int{pi}), true)},
				{Kind: "run", Run: mkRun(asc, args.Entrypoint, false)},
			}})
		}
	}
	out, err := c.RunScenario(sc, i)
	if err != nil {
		return err
	}
	local, tp := false, false
	for _, p := range m.Pkgs {
		a, b := p.HasShadow()
		local, tp = local || a, tp || b
	}
	if local {
		c.Env.Stats.Add("probe/local-type-shadows", 1)
	}
	if tp {
		c.Env.Stats.Add("probe/typeparam-shadows", 1)
	}
	if out.AnyNonTrivial() {
		c.Env.Stats.Fingerprint(fmt.Sprintf("c04/%d pkgs/%v/%v/all=%v/eps=%d/%s/%s", len(m.Pkgs), local, tp, args.All, len(eps), m.GoVer, fmtNames(names)))
	} else {
		c.Env.Stats.Add("trivial-simulations", 1)
	}

	// D4 on the same world, as a history of its own
	fp := &Scenario{Kind: "history", Module: m, Base: base, OnlyOwnOracles: contradict, Variants: []Variant{{Name: "fixedpoint", Ops: []Op{
		{Kind: "run", Run: mkRun(simrt.Schedule{Default: Pick(r, []string{"asc", "desc", "shuf"}), Seed: r.U64()}, args.Entrypoint, true)},
		{Kind: "fixedpoint"},
	}}}}
	if _, err := c.RunScenario(fp, i); err != nil {
		return err
	}
	c.Env.Stats.Sample(map[string]any{"sim": i, "module": m.ModPath, "go": m.GoVer, "packages": len(m.Pkgs), "generators": names, "entrypoints": args.Entrypoint, "all": args.All,
		"variants": variantNames(sc)}, 3)
	return nil
}

func withProcs(r *RunOp, n int) *RunOp {
	r.GoMaxProcs = n
	return r
}

func fmtNames(n []string) string { return fmt.Sprint(n) }

func variantNames(sc *Scenario) []string {
	var out []string
	for _, v := range sc.Variants {
		out = append(out, v.Name)
	}
	return out
}
