package sim

func executeInfl(env *Env, sc *Scenario) ([]Violation, error) {
	return nil, infra("inflsim not built yet")
}
