package sim

import (
	"crypto/sha256"
	"fmt"
	"hash"
	"io"
	"os"
	"path/filepath"
	"sort"
	"strings"

	"verifharness/proto"
)

// genState is the part of a world the comparison oracles look at: every
// <base>.* file directly in a package directory, and gengo.sum.
func genState(root string, m *ModuleSpec, base string) map[string]string {
	out := map[string]string{}
	for _, p := range m.Pkgs {
		dir := filepath.Join(root, p.Dir)
		ents, err := os.ReadDir(dir)
		if err != nil {
			continue
		}
		for _, e := range ents {
			if e.IsDir() || !strings.HasPrefix(e.Name(), base+".") {
				continue
			}
			data, err := os.ReadFile(filepath.Join(dir, e.Name()))
			if err != nil {
				continue
			}
			out[filepath.Join(p.Dir, e.Name())] = string(data)
		}
	}
	if data, err := os.ReadFile(filepath.Join(root, "gengo.sum")); err == nil {
		out["gengo.sum"] = string(data)
	}
	return out
}

// callSeq renders, per generator, the sequence of GenerateType/GenerateAliasType calls it saw (the
// interleaving of different generators follows the order they were handed over in and is no output).
func callSeq(steps []*StepRecord) string {
	per := map[string]*strings.Builder{}
	for si, s := range steps {
		if s.Resp == nil {
			continue
		}
		for _, e := range s.Resp.Events {
			if e.Kind == "gen" || e.Kind == "alias" {
				b := per[e.Gen]
				if b == nil {
					b = &strings.Builder{}
					per[e.Gen] = b
				}
				fmt.Fprintf(b, "step %d %s %s %s.%s@%s:%d\n", si, e.Kind, e.Gen, e.Pkg, e.Type, e.File, e.Line)
			}
		}
	}
	var sb strings.Builder
	for _, g := range sortedKeys(per) {
		sb.WriteString(per[g].String())
	}
	return sb.String()
}

func diffStates(a, b map[string]string) (string, string) {
	keys := map[string]bool{}
	for k := range a {
		keys[k] = true
	}
	for k := range b {
		keys[k] = true
	}
	var ks []string
	for k := range keys {
		ks = append(ks, k)
	}
	sort.Strings(ks)
	for _, k := range ks {
		va, oka := a[k]
		vb, okb := b[k]
		switch {
		case oka && !okb:
			return k, "present vs absent"
		case !oka && okb:
			return k, "absent vs present"
		case va != vb:
			return k, firstDiff(va, vb)
		}
	}
	return "", ""
}

func firstDiff(a, b string) string {
	la, lb := strings.Split(a, "\n"), strings.Split(b, "\n")
	for i := 0; i < len(la) && i < len(lb); i++ {
		if la[i] != lb[i] {
			return fmt.Sprintf("line %d: %q vs %q", i+1, clip(la[i]), clip(lb[i]))
		}
	}
	return fmt.Sprintf("%d vs %d lines", len(la), len(lb))
}

// Outcome of executing a scenario.
type Outcome struct {
	Violations []Violation
	// Records: the step records of every variant ("setup" included), for
	// record-then-inject fault enumeration.
	Records map[string][]*StepRecord
	// Digest of everything observable in this execution (event traces, tree
	// snapshots, errors; scheduler choices and results for inflsim): two
	// executions of one scenario must agree on it (determinism self-test).
	Digest string
}

// NonTrivial reports whether the variant did real work: at least one package was executed (or one
// universe/inflector request served) and, if a fault was planned for a run, it fired or killed the process.
func (o *Outcome) NonTrivial(variant string) bool {
	steps, ok := o.Records[variant]
	if !ok {
		return false
	}
	work := false
	for _, st := range steps {
		if st.Op.Run == nil {
			continue
		}
		if len(st.Executed) > 0 || st.Killed {
			work = true
		}
		if len(st.Op.Run.Faults) > 0 && !st.Killed && (st.Resp == nil || len(st.Resp.Fired) == 0) {
			return false
		}
	}
	return work
}

// AnyNonTrivial reports whether any variant of the outcome was non-trivial.
func (o *Outcome) AnyNonTrivial() bool {
	for v := range o.Records {
		if v != "setup" && o.NonTrivial(v) {
			return true
		}
	}
	return false
}

// digestRecords hashes the step records of all variants in a canonical order.
func digestRecords(records map[string][]*StepRecord) string {
	h := sha256.New()
	if d := os.Getenv("VERIF_DIGEST_DEBUG"); d != "" {
		if fh, err := os.CreateTemp(d, "digest-*.txt"); err == nil {
			defer fh.Close()
			return digestTo(io.MultiWriter(h, fh), h, records)
		}
	}
	return digestTo(h, h, records)
}

func digestTo(h io.Writer, sum hash.Hash, records map[string][]*StepRecord) string {
	for _, name := range sortedKeys(records) {
		fmt.Fprintf(h, "variant %s\n", name)
		for _, st := range records[name] {
			fmt.Fprintf(h, "op %s killed=%v\n", st.Op.Kind, st.Killed)
			if st.Resp != nil {
				fmt.Fprintf(h, "load=%q exec=%q panic=%v\n", st.Resp.LoadErr, st.Resp.ExecErr, st.Resp.Panic != "")
				var load []string
				for _, e := range st.Resp.Events {
					line := fmt.Sprintf("%s|%s|%s|%s|%s|%s|%d|%d|%s|%d", e.Kind, e.Gen, e.Pkg, e.Type, e.Scope, e.Path, e.N, e.Off, e.Fault, e.Inst)
					if e.Exec < 0 {
						load = append(load, line) // go/packages reads files from several goroutines: a multiset
					} else {
						fmt.Fprintf(h, "x %d %s\n", e.Exec, line)
					}
				}
				sort.Strings(load)
				for _, l := range load {
					fmt.Fprintf(h, "l %s\n", l)
				}
				for _, k := range sortedKeys(st.Resp.Sum) {
					fmt.Fprintf(h, "sum %s %s\n", k, st.Resp.Sum[k])
				}
			}
			for _, k := range sortedKeys(st.Post) {
				fmt.Fprintf(h, "f %s %s\n", k, st.Post[k])
			}
		}
	}
	return fmt.Sprintf("%x", sum.Sum(nil)[:12])
}

// ExecuteScenario runs a materialised scenario from scratch. It is the single
// entry point used by exploration, minimisation and replay.
func ExecuteScenario(env *Env, sc *Scenario) (out *Outcome, err error) {
	out = &Outcome{Records: map[string][]*StepRecord{}}
	switch sc.Kind {
	case "infl":
		vs, dig, err := executeInfl(env, sc)
		out.Violations = vs
		out.Digest = dig
		return out, err
	}
	if sc.ExternalRoot != "" {
		vs, err := executeUniverse(env, sc, sc.ExternalRoot)
		out.Violations = vs
		return out, err
	}
	root, err := env.NewWorld()
	if err != nil {
		return nil, infra("world: %v", err)
	}
	defer os.RemoveAll(root)
	if sc.LinkedRoot {
		if err := os.MkdirAll(filepath.Join(root, "volume"), 0o755); err != nil {
			return nil, infra("world: %v", err)
		}
		if err := os.Symlink("volume", filepath.Join(root, "ws")); err != nil {
			return nil, infra("world: %v", err)
		}
		root = filepath.Join(root, "ws")
		env.Stats.Add("probe/module-below-a-symlinked-directory", 1)
	}
	mroot := filepath.Join(root, "m")
	if err := os.MkdirAll(mroot, 0o755); err != nil {
		return nil, infra("world: %v", err)
	}
	if err := sc.Module.Materialise(mroot); err != nil {
		return nil, infra("materialise: %v", err)
	}
	// every execution works on its own copy of the scenario: ops such as retag change the module spec
	setup := &Exec{Env: env, Sc: cloneScenario(sc), Variant: "setup", Root: mroot, Model: NewCacheModel()}
	if err := setup.RunOps(sc.Setup); err != nil {
		setup.Close()
		return nil, err
	}
	setup.Close()
	out.Violations = append(out.Violations, setup.Viol...)
	out.Records["setup"] = setup.Steps

	if sc.Kind == "universe" {
		vs, err := executeUniverse(env, sc, mroot)
		out.Violations = append(out.Violations, vs...)
		return out, err
	}

	type result struct {
		state map[string]string
		calls string
		x     *Exec
	}
	var results []result
	for vi, v := range sc.Variants {
		vroot := mroot
		if len(sc.Variants) > 1 {
			vroot = filepath.Join(root, fmt.Sprintf("v%d", vi), "m")
			if err := os.MkdirAll(filepath.Dir(vroot), 0o755); err != nil {
				return nil, infra("world: %v", err)
			}
			if err := CopyTree(mroot, vroot); err != nil {
				return nil, infra("copy world: %v", err)
			}
		}
		x := &Exec{Env: env, Sc: cloneScenario(setup.Sc), Variant: v.Name, Root: vroot, Model: setup.Model.Clone(), loadBroken: setup.loadBroken, touches: setup.touches}
		err := x.RunOps(v.Ops)
		if err == nil && sc.UniformGens {
			x.checkFinalState()
		}
		x.Close()
		if err != nil {
			return nil, err
		}
		out.Violations = append(out.Violations, x.Viol...)
		out.Records[v.Name] = x.Steps
		if os.Getenv("VERIF_TRACE_STEPS") != "" { // debugging aid
			for si, st := range x.Steps {
				var ex []string
				for p := range st.Executed {
					ex = append(ex, p)
				}
				sort.Strings(ex)
				fired := []string{}
				if st.Resp != nil {
					fired = st.Resp.Fired
				}
				fmt.Fprintf(os.Stderr, "trace %s step %d %s how=%s err=%q killed=%v executed=%v fired=%v presum=%q postsum=%s\n", v.Name, si, st.Op.Kind, st.Op.How, respErr(st.Resp), st.Killed, ex, fired, string(st.PreSum), st.Post["gengo.sum"])
			}
		}
		if keep := os.Getenv("VERIF_KEEP_WORLDS"); keep != "" {
			_ = CopyTree(vroot, filepath.Join(keep, sanitize(v.Name))) // debugging aid
		}
		results = append(results, result{genState(vroot, sc.Module, sc.Base), callSeq(x.Steps), x})
	}

	out.Digest = digestRecords(out.Records)
	switch sc.Kind {
	case "compare-bytes":
		// C04 D1-D3, D5: every variant ends in the same bytes and saw the same calls
		for vi := 1; vi < len(results); vi++ {
			a, b := results[0].state, results[vi].state
			if strings.HasPrefix(sc.Variants[vi].Name, "pair:") {
				// two variants with a history of their own: compared with each other
				group := func(k int) string {
					if k < 0 || k >= len(sc.Variants) || !strings.HasPrefix(sc.Variants[k].Name, "pair:") {
						return ""
					}
					return strings.SplitN(sc.Variants[k].Name, ":", 3)[1]
				}
				if group(vi+1) == group(vi) && group(vi-1) != group(vi) {
					if f, why := diffStates(results[vi].state, results[vi+1].state); f != "" {
						class := "generated-file-differs"
						if f == "gengo.sum" {
							class = "sum-differs"
						}
						out.Violations = append(out.Violations, Violation{Property: "C04", Oracle: "D3", Class: class + "/process-history",
							Detail: fmt.Sprintf("%s vs %s: %s: %s", sc.Variants[vi].Name, sc.Variants[vi+1].Name, f, why), Variant: sc.Variants[vi+1].Name})
					}
				}
				continue
			}
			if strings.HasPrefix(sc.Variants[vi].Name, "eventual:") {
				// a failed run followed by the same run again: the same generated files in the end; gengo.sum
				// records the tree the second run started from, which now holds outputs
				a, b = dropSum(a), dropSum(b)
			}
			if strings.HasPrefix(sc.Variants[vi].Name, "eventual:") {
				// D8: if the run that met the fault reported success all the same (a fallback took over), it
				// is a successful run like any other: its files are the deterministic bytes already
				steps := results[vi].x.Steps
				if len(steps) > 1 && steps[0].Resp != nil && steps[0].Resp.ExecErr == "" && steps[0].Resp.LoadErr == "" && !steps[0].Killed && steps[0].Post != nil {
					for rel, content := range dropSum(results[0].state) {
						want := fmt.Sprintf("f:%x", sha256.Sum256([]byte(content)))
						if got := steps[0].Post[rel]; got != want {
							out.Violations = append(out.Violations, Violation{Property: "C04", Oracle: "D8", Class: "successful-run-after-fault-wrote-other-bytes",
								Detail: fmt.Sprintf("%s: the run met %v, returned nil, and left %s %s (not the bytes of %s)", sc.Variants[vi].Name, steps[0].Resp.Fired, rel, map[bool]string{true: "absent", false: "with other content"}[got == ""], sc.Variants[0].Name), Variant: sc.Variants[vi].Name})
							break
						}
					}
				}
			}
			if f, why := diffStates(a, b); f != "" {
				class := "generated-file-differs"
				if f == "gengo.sum" {
					class = "sum-differs"
				}
				kind := strings.SplitN(sc.Variants[vi].Name, ":", 2)[0]
				out.Violations = append(out.Violations, Violation{Property: "C04", Oracle: "D1", Class: class + "/" + kind,
					Detail: fmt.Sprintf("%s vs %s: %s: %s", sc.Variants[0].Name, sc.Variants[vi].Name, f, why), Variant: sc.Variants[vi].Name,
					Facts: shadowFacts(sc.Module)})
			}
			if results[0].calls != results[vi].calls && !strings.HasPrefix(sc.Variants[vi].Name, "eventual:") {
				kind := strings.SplitN(sc.Variants[vi].Name, ":", 2)[0]
				out.Violations = append(out.Violations, Violation{Property: "C04", Oracle: "D5", Class: "generatetype-sequence-differs/" + kind,
					Detail: fmt.Sprintf("%s vs %s: %s", sc.Variants[0].Name, sc.Variants[vi].Name, firstDiff(results[0].calls, results[vi].calls)), Variant: sc.Variants[vi].Name,
					Facts: shadowFacts(sc.Module)})
			}
		}
	case "compare-alone":
		// C05: for every "together" variant V and every package P that V executed,
		// the files in P's directory equal those of the variant that ran P alone
		alone := map[int]int{}
		for vi, v := range sc.Variants {
			var pi int
			if n, _ := fmt.Sscanf(v.Name, "alone:%d", &pi); n == 1 {
				alone[pi] = vi
			}
		}
		for vi, v := range sc.Variants {
			if strings.HasPrefix(v.Name, "alone:") {
				continue
			}
			executed := map[string]bool{}
			steps := results[vi].x.Steps
			if len(steps) == 0 {
				continue
			}
			// A2: a run that failed (a generator of SOME package returned an error) leaves every package either
			// as it was before the run or as the run that processes it alone leaves it - a package is never
			// half-done because another one failed
			for _, st := range steps[:len(steps)-1] {
				if st.Op.Kind != "run" || st.Resp == nil || st.Resp.ExecErr == "" || st.Killed || st.Pre == nil || st.Post == nil {
					continue
				}
				ioFault := false
				for _, e := range st.Resp.Events {
					if strings.HasPrefix(e.Kind, "os.") && e.Fault != "" {
						ioFault = true
					}
				}
				if ioFault {
					continue
				}
				for pi, avi := range alone {
					dir := filepath.Clean(sc.Module.Pkgs[pi].Dir)
					// the package the error is about may be half-written (its first files are in place when a later
					// one turns out to be unparseable): the clause is about the OTHER packages
					if e := st.Resp.ExecErr; strings.Contains(e, sc.Module.ImportPath(pi)) || strings.Contains(e, filepath.Join(results[vi].x.Root, dir)+"/") || strings.Contains(e, filepath.Join("$ROOT", dir)+"/") {
						continue
					}
					linked := false
					pick := func(snap Snapshot) map[string]string {
						out := map[string]string{}
						for rel, fp := range snap {
							if fp == "d" {
								continue // a directory whose name has the output prefix is not an output
							}
							if filepath.Clean(filepath.Dir(rel)) == dir && strings.HasPrefix(filepath.Base(rel), sc.Base+".") {
								out[rel] = fp
								if strings.HasPrefix(fp, "l:") {
									linked = true
								}
							}
						}
						return out
					}
					pre, post := pick(st.Pre), pick(st.Post)
					if linked {
						continue // (outputs that are symbolic links: the snapshots record the link, the alone state the content)
					}
					want := map[string]string{}
					for rel, content := range filterDir(results[avi].state, dir) {
						want[rel] = fmt.Sprintf("f:%x", sha256.Sum256([]byte(content)))
					}
					env.Stats.Add("probe/after-failure-package-states-compared", 1)
					if !sameFiles(post, pre) && !sameFiles(post, want) {
						out.Violations = append(out.Violations, Violation{Property: "C05", Oracle: "A2", Class: "package-half-done-after-failure-elsewhere",
							Detail: fmt.Sprintf("%s: after the run failed with %q the generated files of %s are neither those from before the run nor those of %s: %s", v.Name, clip(st.Resp.ExecErr), sc.Module.ImportPath(pi), sc.Variants[avi].Name, describeFiles(post, pre, want)), Variant: v.Name})
					}
				}
			}
			last := steps[len(steps)-1] // earlier steps of the variant (a failing run) only prepare process state
			if last.Resp == nil || last.Resp.ExecErr != "" || last.Resp.LoadErr != "" {
				continue
			}
			for p := range last.Executed {
				executed[p] = true
			}
			if strings.HasPrefix(v.Name, "together:all-") {
				// after a successful All run every local package counts, also those trusted as cached
				for _, pi := range last.Local {
					executed[sc.Module.ImportPath(pi)] = true
				}
			}
			for pi, avi := range alone {
				if !executed[sc.Module.ImportPath(pi)] {
					continue
				}
				dir := sc.Module.Pkgs[pi].Dir
				if f, why := diffStates(filterDir(results[vi].state, dir), filterDir(results[avi].state, dir)); f != "" {
					out.Violations = append(out.Violations, Violation{Property: "C05", Oracle: "A1", Class: "output-depends-on-other-packages",
						Detail: fmt.Sprintf("%s vs %s: %s: %s", v.Name, sc.Variants[avi].Name, f, why), Variant: v.Name})
				}
				env.Stats.Add("probe/alone-vs-together-compared", 1)
			}
		}
	case "compare-recovery":
		// C02 E4: after recovery the faulty variants hold the same outputs as the never-failed one
		for vi := 1; vi < len(results); vi++ {
			if results[vi].x.wedged {
				continue // already reported as wedged-load-fails; the history stopped there
			}
			if f, why := diffStates(results[0].state, results[vi].state); f != "" {
				out.Violations = append(out.Violations, Violation{Property: "C02", Oracle: "E4", Class: "recovered-state-differs",
					Detail: fmt.Sprintf("never-failed vs %s: %s: %s", sc.Variants[vi].Name, f, why), Variant: sc.Variants[vi].Name})
			}
		}
	}
	return out, nil
}

func describeFiles(post, pre, alone map[string]string) string {
	var out []string
	names := map[string]bool{}
	for _, m := range []map[string]string{post, pre, alone} {
		for k := range m {
			names[k] = true
		}
	}
	for _, k := range sortedKeys(names) {
		state := func(m map[string]string) string {
			switch v, ok := m[k]; {
			case !ok:
				return "absent"
			case v == pre[k]:
				return "as-before"
			case v == alone[k]:
				return "as-alone"
			default:
				return "other"
			}
		}
		out = append(out, fmt.Sprintf("%s now=%s alone=%s before=%s", k, state(post), state(alone), map[bool]string{true: "present", false: "absent"}[pre[k] != ""]))
	}
	return strings.Join(out, "; ")
}

func shadowFacts(m *ModuleSpec) map[string]string {
	l, t := false, false
	for _, p := range m.Pkgs {
		a, b := p.HasShadow()
		l = l || a
		t = t || b
	}
	return map[string]string{"local_shadow": fmt.Sprint(l), "typeparam_shadow": fmt.Sprint(t)}
}

func dropSum(s map[string]string) map[string]string {
	out := map[string]string{}
	for k, v := range s {
		if k != "gengo.sum" {
			out[k] = v
		}
	}
	return out
}

func filterDir(s map[string]string, dir string) map[string]string {
	out := map[string]string{}
	for k, v := range s {
		if k != "gengo.sum" && filepath.Clean(filepath.Dir(k)) == filepath.Clean(dir) {
			out[k] = v
		}
	}
	return out
}

// executeUniverse: C13. Each variant holds one "run" op whose schedule is used
// for a load-only request; problems are violations and all digests must agree.
func executeUniverse(env *Env, sc *Scenario, mroot string) ([]Violation, error) {
	var viol []Violation
	var first map[string]string
	for vi, v := range sc.Variants {
		x := &Exec{Env: env, Sc: sc, Variant: v.Name, Root: mroot, Model: NewCacheModel()}
		w, err := x.worker(true)
		if err != nil {
			return nil, err
		}
		run := v.Ops[0].Run
		if strings.Contains(v.Name, "second-checkout") && sc.ExternalRoot == "" {
			// the same module (same module path) was loaded before from another directory by this very process
			other := filepath.Join(filepath.Dir(filepath.Dir(mroot)), "other-checkout", "m")
			if err := os.MkdirAll(filepath.Dir(other), 0o755); err == nil {
				_ = os.RemoveAll(other)
				if err := CopyTree(mroot, other); err == nil {
					if _, err := w.Do(&proto.RunReq{Root: other, Args: run.Args, Sched: run.Sched, Universe: true, NoEvents: true}, env.Timeout); err != nil {
						x.Close()
						return nil, infra("universe (first checkout): %v", err)
					}
					env.Stats.Add("probe/second-checkout-in-one-process", 1)
				}
				_ = os.RemoveAll(filepath.Dir(other))
			}
		}
		resp, err := w.Do(&proto.RunReq{Root: mroot, Args: run.Args, Sched: run.Sched, Universe: true, UniAll: sc.ExternalRoot != "" || sc.UniAll, UniMethodsFirst: strings.Contains(v.Name, "methods-first"), DriverFailsOnce: strings.Contains(v.Name, "driver-fails-once"), UniLocateFirst: strings.Contains(v.Name, "locate-first"), NoEvents: true}, 4*env.Timeout)
		x.Close()
		if err != nil {
			return nil, infra("universe: %v", err)
		}
		env.Stats.Add("runs", 1)
		env.Stats.NoteSites(resp)
		if resp.Panic != "" {
			viol = append(viol, Violation{Property: "C13", Oracle: "U0", Class: "panic", Detail: firstLine(resp.Panic), Variant: v.Name})
			continue
		}
		if resp.LoadErr != "" {
			if strings.Contains(v.Name, "driver-fails-once") {
				env.Stats.Add("probe/load-failed-with-failing-driver", 1)
				continue // failing is fine; succeeding with a broken universe is not
			}
			viol = append(viol, Violation{Property: "C13", Oracle: "U0", Class: "load-error", Detail: firstLine(resp.LoadErr), Variant: v.Name})
			continue
		}
		dig := map[string]string{}
		for _, pr := range resp.Universe {
			env.Stats.Add("packages-checked", 1)
			dig[pr.Path] = pr.Digest
			for _, p := range pr.Problems {
				facts := map[string]string{"module": fmt.Sprint(pr.Module)}
				for k, v := range p.Facts {
					facts[k] = v
				}
				viol = append(viol, Violation{Property: "C13", Oracle: p.Oracle, Class: p.Class, Detail: pr.Path + ": " + p.Detail, Variant: v.Name, Facts: facts})
			}
		}
		if vi == 0 {
			first = dig
			continue
		}
		for p, d := range dig {
			if first[p] != d {
				viol = append(viol, Violation{Property: "C13", Oracle: "U5", Class: "universe-depends-on-map-order",
					Detail: fmt.Sprintf("%s: digest %s under %s, %s under %s", p, first[p], sc.Variants[0].Name, d, v.Name), Variant: v.Name})
			}
		}
	}
	return viol, nil
}
