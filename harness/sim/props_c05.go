package sim

import (
	"fmt"
	"os"
	"path/filepath"
	"strings"

	"verifharness/proto"
)

// SimC05: the files produced for a package are the same whether it is
// processed alone or together with other packages, in any order.
func SimC05(c *CheckCtx, i int, r *Rng) error {
	base := drawBase(r)
	var m *ModuleSpec
	var names []string
	var gens []proto.GenScript
	real := r.P(0.3)
	twoModules := false
	if real {
		m, names = DrawRealModule(r, 2)
		gens = RealGens(names)
	} else {
		names = Pick(r, genNamePool)
		cfg := DrawSpecConfig(r, names, base)
		cfg.MinPkgs, cfg.MaxPkgs = 2, r.Range(2, 4)
		cfg.PPkgTags, cfg.PDeclTags = 0.8, 0.7
		m = DrawModule(r, cfg)
		scfg := DrawScriptConfig(r)
		scfg.PStateful = 0.8 // stateful generators are what makes leakage visible
		scfg.PNoNew = 0.5
		gens = []proto.GenScript{Probe()}
		if i%5 == 3 {
			// packages of two local modules (a nested module reached through a replace directive) in one run:
			// what a package's file looks like is decided by its own module (path, go version), never by
			// the module of a package that happens to be processed with it
			addSubModule(r, cfg, m)
			twoModules = true
			c.Env.Stats.Add("probe/two-module-world", 1)
		}
		for _, n := range names {
			gens = append(gens, DrawScript(r, scfg, m, n))
		}
		if twoModules {
			forceSubRefs(m, gens)
		}
	}
	if !real && !twoModules && i%7 == 5 {
		m, names, gens = walkWorld(r, base)
		c.Env.Stats.Add("probe/shared-helper-results-world", 1)
	} else if !real && !twoModules && r.P(0.25) {
		m, names, gens = clashWorld(r, base)
		c.Env.Stats.Add("probe/import-name-clash-world", 1)
	}
	globals := map[string][]string(nil)
	if !real {
		globals = drawGlobals(r, names)
	}
	// the selected packages
	var sel []int
	for pi := range m.Pkgs {
		if r.P(0.8) {
			sel = append(sel, pi)
		}
	}
	if len(sel) < 2 {
		sel = []int{0, 1}
	}
	mk := func(eps []int, all bool) *RunOp {
		return &RunOp{Args: proto.GenArgs{Entrypoint: spell(r, m, eps), Base: base, All: all, Force: true, Globals: globals}, Gens: gens, Sched: drawSched(r), Fresh: r.P(0.5)}
	}
	sc := &Scenario{Kind: "compare-alone", Module: m, Base: base}
	if twoModules {
		sel = sel[:0]
		for pi := range m.Pkgs {
			sel = append(sel, pi)
		}
	}
	if !twoModules && r.P(0.45) {
		allp := make([]int, len(m.Pkgs))
		for k := range allp {
			allp[k] = k
		}
		sc.Setup = []Op{{Kind: "run", Run: mk(allp, true)}}
		if !real && r.P(0.6) {
			// after the setup run one generator turns silent for one package: its stale file has to go,
			// whether the package is processed alone or next to packages that still get that file
			gens = append([]proto.GenScript{}, gens...)
			gi := r.Range(1, len(gens)-1)
			if isScripted(&gens[gi]) {
				pm := r.Intn(len(m.Pkgs))
				muted := muteGen(r, m, gens[gi], pm)
				for k, rule := range muted.Rules {
					if rule.Ret == "ignore" || rule.Ret == "wrapped-ignore" {
						rule.Ret = ""
						muted.Rules[k] = rule
					}
				}
				gens[gi] = muted
				c.Env.Stats.Add("probe/generator-muted-after-setup", 1)
				if pq := r.Intn(len(m.Pkgs)); pq != pm && r.P(0.7) {
					// ... while ANOTHER package of the run has a type for which some generator answers ErrIgnore
					// ("keep what is there" - for that package and that generator only)
					gj := r.Range(1, len(gens)-1)
					if isScripted(&gens[gj]) {
						g := gens[gj]
						rules := map[string]proto.Rule{}
						for k, v := range g.Rules {
							rules[k] = v
						}
						key := m.ImportPath(pq) + " " + m.Pkgs[pq].Anchor
						rule := rules[key]
						rule.Ret = Pick(r, []string{"ignore", "wrapped-ignore"})
						rules[key] = rule
						g.Rules = rules
						gens[gj] = g
						c.Env.Stats.Add("probe/errignore-in-another-package", 1)
					}
				}
			}
		}
	}
	perm := func() []int {
		var out []int
		for _, k := range r.Perm(len(sel)) {
			out = append(out, sel[k])
		}
		return out
	}
	sc.Variants = append(sc.Variants, Variant{Name: "together:0", Ops: []Op{{Kind: "run", Run: mk(perm(), false)}}})
	sc.Variants = append(sc.Variants, Variant{Name: "together:1", Ops: []Op{{Kind: "run", Run: mk(perm(), false)}}})
	if !twoModules {
		sc.Variants = append(sc.Variants, Variant{Name: "together:all", Ops: []Op{{Kind: "run", Run: mk(perm()[:r.Range(1, len(sel))], true)}}})
	}
	if !real {
		// the same process first serves a run that fails half-way (some generator callback returns an
		// error after text was rendered): nothing of it may reach the files of the next run
		failing := mk(perm(), false)
		failing.Fresh = true
		for _, g := range gens {
			if isScripted(&g) {
				failing.Faults = append(failing.Faults, proto.Fault{ExecSeq: -1, Kind: "gen", Gen: g.Name, Nth: r.Range(1, 3), Do: "gen-error"})
			}
		}
		after := mk(perm(), false)
		after.Fresh = false
		sc.Variants = append(sc.Variants, Variant{Name: "together:after-failure", Ops: []Op{{Kind: "run", Run: failing}, {Kind: "run", Run: after}}})
		if !twoModules && len(sc.Setup) == 0 {
			// (only in worlds without earlier outputs: the cache knows nothing about generators that changed
			// their behaviour since, and a package it skips rightly keeps what the old behaviour wrote)
			// the same through All and the cache, on a slow machine: an All run fails half-way, the next All
			// run succeeds - then EVERY local package, generated now or trusted as cached, is as when
			// generated alone
			f2 := *failing
			f2.Args.All, f2.Args.Force = true, false
			f2.Sched.Clock = "slow:2500"
			f2.Faults = nil
			for _, g := range gens {
				if isScripted(&g) {
					f2.Faults = append(f2.Faults, proto.Fault{ExecSeq: -1, Kind: "gen", Gen: g.Name, Nth: r.Range(2, 5), Do: "gen-error"})
				}
			}
			a2 := *after
			a2.Args.All, a2.Args.Force = true, false
			a2.Fresh = r.P(0.5)
			sc.Variants = append(sc.Variants, Variant{Name: "together:all-after-failure", Ops: []Op{{Kind: "run", Run: &f2}, {Kind: "run", Run: &a2}}})
		}
	}
	for pi := range m.Pkgs {
		sc.Variants = append(sc.Variants, Variant{Name: fmt.Sprintf("alone:%d", pi), Ops: []Op{{Kind: "run", Run: mk([]int{pi}, false)}}})
	}
	out, err := c.RunScenario(sc, i)
	if err != nil {
		return err
	}
	if out.AnyNonTrivial() {
		c.Env.Stats.Fingerprint(fmt.Sprintf("c05/%d pkgs/%d selected/real=%v/%v/%s", len(m.Pkgs), len(sel), real, names, m.GoVer))
	} else {
		c.Env.Stats.Add("trivial-simulations", 1)
	}
	if real {
		c.Env.Stats.Add("probe/real-generators-world", 1)
	}
	c.Env.Stats.Sample(map[string]any{"sim": i, "packages": len(m.Pkgs), "selected": sel, "generators": names, "real_generators": real, "variants": variantNames(sc)}, 3)
	return nil
}

// SimC13: the loaded universe under map-order schedules.
func SimC13(c *CheckCtx, i int, r *Rng) error {
	if i == 0 {
		// gengo's own module and its whole dependency closure (std included), read-only
		repo := os.Getenv("VERIF_REPO")
		if repo == "" {
			repo = "/repo"
		}
		args := proto.GenArgs{Entrypoint: []string{"./pkg/...", "./devpkg/...", "./testdata/..."}}
		sc := &Scenario{Kind: "universe", ExternalRoot: repo}
		scheds := []string{"asc"}
		if c.Tier == "thorough" {
			scheds = []string{"asc", "desc", "shuf"}
		}
		for _, s := range scheds {
			sc.Variants = append(sc.Variants, Variant{Name: "sched:" + s, Ops: []Op{{Kind: "run", Run: &RunOp{Args: args, Sched: schedOf(s, 7)}}}})
		}
		_, err := c.RunScenario(sc, i)
		c.Env.Stats.Add("probe/real-module-closure-loaded", 1)
		return err
	}
	if i == 1 {
		// a synthetic module whose closure contains std packages with vendored dependencies that
		// have several importers (net/http, crypto/tls -> vendor/golang.org/x/...)
		m := &ModuleSpec{ModPath: "example.com/web", GoVer: "1.24", Pkgs: []*PkgSpec{{Dir: "srv", Name: "srv", Anchor: "Server",
			Files: []*SrcFile{{Name: "doc.go", Decls: []*Decl{{Kind: "raw", Name: "raw", Fields: []string{
				"import (\n\t\"crypto/tls\"\n\t\"net/http\"\n)\n\n// Server wraps the std types.\ntype Server struct {\n\tH *http.Server\n\tC *tls.Config\n}"}}}}}}}}
		sc := &Scenario{Kind: "universe", Module: m, UniAll: true}
		for _, s := range []string{"asc", "desc"} {
			sc.Variants = append(sc.Variants, Variant{Name: "sched:" + s, Ops: []Op{{Kind: "run", Run: &RunOp{Args: proto.GenArgs{Entrypoint: []string{"./srv"}}, Sched: schedOf(s, 3)}}}})
		}
		_, err := c.RunScenario(sc, i)
		c.Env.Stats.Add("probe/vendored-std-closure-loaded", 1)
		return err
	}
	base := drawBase(r)
	names := Pick(r, genNamePool)
	cfg := DrawSpecConfig(r, names, base)
	cfg.MaxPkgs = r.Range(1, 4)
	cfg.PShadowLocal, cfg.PShadowTypeParam, cfg.PLocalUnique = 0.6, 0.6, 0.5
	cfg.PGeneric, cfg.PMethods, cfg.PGrouped = 0.4, 0.7, 0.4
	m := DrawModule(r, cfg)
	all := make([]int, len(m.Pkgs))
	for k := range all {
		all[k] = k
	}
	eps := drawEntrypoints(r, m)
	if r.P(0.5) {
		eps = all
	}
	args := proto.GenArgs{Entrypoint: spell(r, m, eps), Base: base}
	if i%7 == 3 {
		if AddIllTyped(r, m, names) >= 0 {
			c.Env.Stats.Add("probe/ill-typed-package-world", 1)
		}
	}
	if i%60 == 13 && c.Env.CgoUsable() {
		if AddCgoFile(r, m) {
			c.Env.Stats.Add("probe/cgo-world", 1)
		}
	}
	if i%8 == 5 {
		// a second module joined by a replace directive (or a workspace): its packages are loaded from a
		// directory that is not below the main module's path prefix
		nMain := len(m.Pkgs)
		addSubModule(r, cfg, m)
		m.Workspace = r.P(0.3)
		if (i/8)%2 == 1 {
			m.Sub.Path = m.ModPath + "/" + m.Sub.Dir
		}
		pi := r.Intn(nMain)
		m.Pkgs[pi].Imports = append(m.Pkgs[pi].Imports, nMain, nMain+1)
		eps, args.Entrypoint = all, spell(r, m, all)
		c.Env.Stats.Add("probe/two-module-world", 1)
	}
	if i%8 == 6 {
		// two roots of which the first imports the second, the second named by one of its files (a `file=`
		// query): go/packages then reports the importer first
	search:
		for pa, p := range m.Pkgs {
			for _, pb := range p.Imports {
				if q := m.Pkgs[pb]; !p.InSub && !q.InSub && p.Dir != "" && len(q.Files) > 0 {
					args.Entrypoint = []string{"./" + p.Dir, "file=" + filepath.Join(q.Dir, q.Files[0].Name)}
					eps = []int{pa, pb}
					c.Env.Stats.Add("probe/file-query-entrypoint", 1)
					break search
				}
			}
		}
	}
	sc := &Scenario{Kind: "universe", Module: m, Base: base, LinkedRoot: i%4 == 2}
	for _, s := range []string{"asc", "desc"} {
		sc.Variants = append(sc.Variants, Variant{Name: "sched:" + s, Ops: []Op{{Kind: "run", Run: &RunOp{Args: args, Sched: schedOf(s, 0)}}}})
	}
	n := 1
	if c.Tier == "thorough" {
		n = 3
	}
	for k := 0; k < n; k++ {
		sc.Variants = append(sc.Variants, Variant{Name: fmt.Sprintf("sched:shuf:%d", k), Ops: []Op{{Kind: "run", Run: &RunOp{Args: args, Sched: schedOf("shuf", r.U64())}}}})
	}
	sc.Variants = append(sc.Variants, Variant{Name: "sched:asc:locate-first", Ops: []Op{{Kind: "run", Run: &RunOp{Args: args, Sched: schedOf("asc", 0)}}}})
	sc.Variants = append(sc.Variants, Variant{Name: "sched:asc:driver-fails-once", Ops: []Op{{Kind: "run", Run: &RunOp{Args: args, Sched: schedOf("asc", 0)}}}})
	sc.Variants = append(sc.Variants, Variant{Name: "sched:asc:second-checkout", Ops: []Op{{Kind: "run", Run: &RunOp{Args: args, Sched: schedOf("asc", 0)}}}})
	if r.P(0.25) {
		// an entry the directory hash cannot read (an editor's lock file): loading must not care
		pi := r.Intn(len(m.Pkgs))
		sc.Setup = append(sc.Setup, Op{Kind: "unhashable", Path: filepath.Join(m.Pkgs[pi].Dir, ".#"+m.Pkgs[pi].Files[0].Name)})
	}
	// the same questions in another order: MethodsOf before any name table of the package is touched
	sc.Variants = append(sc.Variants, Variant{Name: "sched:asc:methods-first", Ops: []Op{{Kind: "run", Run: &RunOp{Args: args, Sched: schedOf("asc", 0)}}}})
	if r.P(0.4) {
		// generated files from earlier runs are part of the packages too - new named types included; and
		// the universe a run hands to its generators must be as right as the one Load returns: the second
		// and third run inspect it from inside GenerateType
		gens := []proto.GenScript{Probe()}
		scfg := DrawScriptConfig(r)
		scfg.PDeclTypes = 0.5
		for _, nme := range names {
			g := DrawScript(r, scfg, m, nme)
			g.Inspect = true
			gens = append(gens, g)
		}
		run := &RunOp{Args: proto.GenArgs{Entrypoint: spell(r, m, all), Base: base, All: true, Force: true}, Gens: gens, Sched: drawSched(r), Fresh: true}
		again := *run
		again.Fresh = false
		third := *run
		sc.Setup = append(sc.Setup, Op{Kind: "run", Run: run}, Op{Kind: "run", Run: &again}, Op{Kind: "run", Run: &third})
		c.Env.Stats.Add("probe/universe-inspected-from-generators", 1)
	}
	if _, err := c.RunScenario(sc, i); err != nil {
		return err
	}
	l, t := false, false
	generic := false
	for _, p := range m.Pkgs {
		a, b := p.HasShadow()
		l, t = l || a, t || b
		for _, td := range p.TypeDecls() {
			if td.Kind == "generic" {
				generic = true
			}
		}
	}
	if l {
		c.Env.Stats.Add("probe/local-type-shadows", 1)
	}
	if t {
		c.Env.Stats.Add("probe/typeparam-shadows", 1)
	}
	if generic {
		c.Env.Stats.Add("probe/generic-types", 1)
	}
	c.Env.Stats.Fingerprint(fmt.Sprintf("c13/%d pkgs/%v/%v/%v/%d eps/%s", len(m.Pkgs), l, t, generic, len(eps), m.GoVer))
	c.Env.Stats.Sample(map[string]any{"sim": i, "module": m.ModPath, "packages": len(m.Pkgs), "entrypoints": args.Entrypoint, "local_shadow": l, "typeparam_shadow": t, "generic": generic}, 3)
	return nil
}

// clashWorld builds a module in which import names have to be disambiguated:
// two packages share their last path segment; one package refers to both from
// its generated file, another one only to the second. The name a file binds to
// an import must not depend on what other files of the run imported.
// walkWorld: handlers in two packages reach the same helpers of a third one - mutually recursive
// ones (CheckObject <-> CheckArray) and a diamond (Both -> Left|Right -> Leaf) - and the generator
// renders what Package.ResultsOf says about every function. What the universe answers for one package
// must not depend on what it was asked while another package was processed.
func walkWorld(r *Rng, base string) (*ModuleSpec, []string, []proto.GenScript) {
	name := Pick(r, []string{"x", "g1", "alpha"})
	m := &ModuleSpec{ModPath: Pick(r, modPaths), GoVer: Pick(r, goVers)}
	raw := func(src ...string) []*Decl {
		var out []*Decl
		for i, s := range src {
			out = append(out, &Decl{Kind: "raw", Name: fmt.Sprintf("raw%d", i), Fields: []string{s}})
		}
		return out
	}
	helperDir := Pick(r, []string{"walk", "internal/walk", "zwalk", "a0"}) // before or after its users in path order
	helpers := &PkgSpec{Dir: helperDir, Name: helperDir[strings.LastIndex(helperDir, "/")+1:], Anchor: "Anchor0", DocTags: []Tag{{Marker: "+", Key: "gengo:" + name}}}
	var errs []string
	for _, e := range []string{"Object", "Array", "Leaf", "Left", "Right"} {
		errs = append(errs, fmt.Sprintf("type Err%s struct{}\n\nfunc (*Err%s) Error() string { return %q }", e, e, e))
	}
	fns := []string{
		"func CheckObject(n int) error {\n\tif n == 0 {\n\t\treturn &ErrObject{}\n\t}\n\treturn CheckArray(n - 1)\n}",
		"func CheckArray(n int) error {\n\tif n == 0 {\n\t\treturn &ErrArray{}\n\t}\n\treturn CheckObject(n - 1)\n}",
		"func Leaf(n int) error {\n\tif n > 0 {\n\t\treturn &ErrLeaf{}\n\t}\n\treturn nil\n}",
		"func Left(n int) error {\n\tif n == 1 {\n\t\treturn &ErrLeft{}\n\t}\n\treturn Leaf(n)\n}",
		"func Right(n int) error {\n\tif n == 2 {\n\t\treturn &ErrRight{}\n\t}\n\treturn Leaf(n)\n}",
		"func Both(n int) error {\n\tif n > 5 {\n\t\treturn Left(n)\n\t}\n\treturn Right(n)\n}",
	}
	var src []string
	for _, k := range r.Perm(len(fns)) {
		src = append(src, fns[k])
	}
	helpers.Files = []*SrcFile{{Name: "doc.go", Decls: append([]*Decl{{Kind: "struct", Name: "Anchor0"}}, raw(append(errs, src...)...)...)}}
	m.Pkgs = append(m.Pkgs, helpers)
	entries := [][]string{
		{"func Run(n int) error {\n\treturn dep0.CheckObject(n)\n}", "func Top(n int) error {\n\treturn dep0.Both(n)\n}"},
		{"func Run(n int) error {\n\treturn dep0.CheckArray(n)\n}", "func Side(n int) error {\n\treturn dep0.Right(n)\n}", "func Other(n int) error {\n\treturn dep0.Left(n)\n}"},
		{"func Both(n int) error {\n\tif err := dep0.CheckArray(n); err != nil {\n\t\treturn err\n\t}\n\treturn dep0.Both(n)\n}"},
	}
	dirs := []string{"api/alpha", "api/beta", "cmd/zeta"}
	if r.P(0.5) {
		dirs = []string{"b", "a", "c"}
	}
	for k, dir := range dirs {
		p := &PkgSpec{Dir: dir, Name: dir[strings.LastIndex(dir, "/")+1:], Anchor: fmt.Sprintf("Anchor%d", k+1), Imports: []int{0}, DocTags: []Tag{{Marker: "+", Key: "gengo:" + name}}}
		p.Files = []*SrcFile{{Name: "doc.go", Decls: append([]*Decl{{Kind: "struct", Name: p.Anchor}}, raw(entries[k]...)...)}}
		m.Pkgs = append(m.Pkgs, p)
	}
	g := proto.GenScript{Name: name, Impl: Pick(r, []string{"new", "nonew"}), Rules: map[string]proto.Rule{}, AliasRules: map[string]proto.Rule{}}
	for pi, p := range m.Pkgs {
		g.Rules[m.ImportPath(pi)+" "+p.Anchor] = proto.Rule{Render: []proto.Part{{Results: true}}}
	}
	return m, []string{name}, []proto.GenScript{Probe(), g}
}

func clashWorld(r *Rng, base string) (*ModuleSpec, []string, []proto.GenScript) {
	name := Pick(r, []string{"x", "g1", "alpha"})
	cfg := DrawSpecConfig(r, []string{name}, base)
	cfg.PNested, cfg.PStd, cfg.PPre = 0, 0, 0
	m := &ModuleSpec{ModPath: Pick(r, modPaths), GoVer: Pick(r, goVers)}
	seg := Pick(r, []string{"model", "util", "common"}) // (not a std package name: those are reserved and never handed out plain)
	stdTwin := r.P(0.3)
	if stdTwin {
		// ... or the name of a std package so young (go1.24) that a table of std names may not know it, while
		// another package of the run imports that very std package
		seg = "weak"
		m.GoVer = "1.24"
	}
	dirs := []string{"x/" + seg, "y/" + seg}
	users := []string{"a", "b"}
	if r.P(0.5) {
		users = []string{"d", "c"} // the package that imports both sorts after the other one
	}
	for pi, dir := range append(dirs, users...) {
		p := &PkgSpec{Dir: dir, Name: dir[strings.LastIndex(dir, "/")+1:]}
		switch pi {
		case 2:
			p.Imports = []int{0, 1}
		case 3:
			p.Imports = []int{1}
			if r.P(0.3) {
				p.Imports = []int{0}
			}
		}
		p.DocTags = []Tag{{Marker: "+", Key: "gengo:" + name}}
		drawDecls(r, cfg, p, pi)
		m.Pkgs = append(m.Pkgs, p)
	}
	if stdTwin {
		p := &PkgSpec{Dir: Pick(r, []string{"zq", "a0"}), Name: "q", Std: []string{"weak"}}
		p.DocTags = []Tag{{Marker: "+", Key: "gengo:" + name}}
		drawDecls(r, cfg, p, 4)
		m.Pkgs = append(m.Pkgs, p)
	}
	scfg := DrawScriptConfig(r)
	scfg.PRefs = 0
	g := DrawScript(r, scfg, m, name)
	for pi := 2; pi < 4; pi++ {
		p := m.Pkgs[pi]
		key := m.ImportPath(pi) + " " + p.Anchor
		var parts []proto.Part
		if len(p.Imports) == 2 && r.P(0.75) {
			// one template whose two arguments are the first mention of two packages with the same last
			// path element: which one gets the plain name is decided by their position in the text
			// (a blank line of its own first: gofumpt joins adjacent single-line var declarations into one block)
			parts = append(parts, proto.Part{Text: "\n"}, proto.Part{Tmpl: fmt.Sprintf("\n\nvar ClashT%d_a @zz\n\nvar ClashT%d_b @aa\n\n", pi, pi),
				TArgs: map[string]string{"zz": m.ImportPath(p.Imports[0]) + "." + m.Pkgs[p.Imports[0]].Anchor, "aa": m.ImportPath(p.Imports[1]) + "." + m.Pkgs[p.Imports[1]].Anchor}})
		} else {
			for k, j := range p.Imports {
				parts = append(parts, proto.Part{Text: fmt.Sprintf("\n\nvar Clash%d_%d ", pi, k)}, proto.Part{Ref: m.ImportPath(j) + "." + m.Pkgs[j].Anchor}, proto.Part{Text: "\n\n"})
			}
		}
		g.Rules[key] = proto.Rule{Render: parts}
	}
	return m, []string{name}, []proto.GenScript{Probe(), g}
}
