package sim

import (
	"bytes"
	"fmt"
	"go/parser"
	"go/token"
	"os"
	"path/filepath"
	"regexp"
	"sort"
	"strings"

	"verifharness/proto"
)

func isScripted(g *proto.GenScript) bool { return g.Impl == "new" || g.Impl == "nonew" }

// hasKnownOutput: generators whose rendered output the driver knows: the scripted ones, and the probe,
// which never renders anything (so a <base>.probe.go file can only come from somebody else's text).
func hasKnownOutput(g *proto.GenScript) bool { return isScripted(g) || g.Impl == "probe" }

func lookupRule(rules map[string]proto.Rule, pkg, typ string) proto.Rule {
	if r, ok := rules[pkg+" "+typ]; ok {
		return r
	}
	if r, ok := rules["* "+typ]; ok {
		return r
	}
	return rules["* *"]
}

// genOutcome is what the script says generator g did for package p in a run,
// derived from the trace of callbacks (rule w5: never from what gengo wrote).
type genOutcome struct {
	Parts      []proto.Part // rendered, in order, with instance state resolved for a FRESH instance
	Rendered   bool
	Ignored    bool // ErrIgnore was returned from GenerateType
	Errored    bool // a callback returned an error / injected error
	Unparsable bool
	HasValue   bool
	GenEvents  []proto.Event
	DeferReg   int // number of Defer callbacks registered
	DeferRun   int
}

func partsNonEmpty(ps []proto.Part) bool {
	for _, p := range ps {
		if p.Text != "" || p.Ref != "" || p.Value != "" || p.Tmpl != "" || p.DocRef != "" || p.Results || p.Bulk > 0 || p.Locate != "" || p.Names || p.FieldDocs || p.Octal {
			return true
		}
	}
	return false
}

// outcome replays the script of g over the callback events of (g, pkg).
func outcome(g *proto.GenScript, pkg string, events []proto.Event) genOutcome {
	var o genOutcome
	seen := 0
	helper := false
	resolve := func(ps []proto.Part) {
		for _, p := range ps {
			switch {
			case p.State == "helper-once":
				if !helper {
					helper = true
					o.Parts = append(o.Parts, proto.Part{Text: p.Text})
				}
			case p.State == "inst-count":
				o.Parts = append(o.Parts, proto.Part{Text: p.Text + fmt.Sprint(seen)})
			default:
				if p.Value != "" || p.Results || p.Bulk > 0 || p.Locate != "" || p.Names {
					o.HasValue = true // text the driver does not predict
				}
				o.Parts = append(o.Parts, p)
			}
		}
	}
	for _, e := range events {
		if e.Gen != g.Name || e.Pkg != pkg {
			continue
		}
		switch e.Kind {
		case "gen", "alias":
			o.GenEvents = append(o.GenEvents, e)
			seen++
			rules := g.Rules
			if e.Kind == "alias" {
				rules = g.AliasRules
			}
			rule := lookupRule(rules, pkg, e.Type)
			switch e.Fault {
			case "gen-error":
				o.Errored = true
				continue
			case "gen-unparseable":
				o.Unparsable = true
				o.Rendered = true
				continue
			}
			resolve(rule.Render)
			o.DeferReg += len(rule.Defers)
			switch rule.Ret {
			case "ignore", "wrapped-ignore":
				if e.Kind == "gen" {
					o.Ignored = true
				}
			case "error":
				o.Errored = true
			}
		case "defer":
			o.DeferRun++
			switch e.Fault {
			case "gen-error":
				o.Errored = true
				continue
			case "gen-unparseable":
				o.Unparsable = true
				o.Rendered = true
				continue
			}
			// find the rule that registered it
			for _, rules := range []map[string]proto.Rule{g.Rules, g.AliasRules} {
				if r, ok := rules[pkg+" "+e.Type]; ok && e.N < len(r.Defers) {
					d := r.Defers[e.N]
					resolve(d.Render)
					if d.Ret == "error" {
						o.Errored = true
					}
					break
				}
			}
		}
	}
	if partsNonEmpty(o.Parts) {
		o.Rendered = true
	}
	return o
}

var posRe = regexp.MustCompile(`:\d+:\d+`)

// checkRun evaluates every per-run oracle.
func (x *Exec) checkRun(rec *StepRecord) {
	nBefore := len(x.Viol)
	defer x.checkInterrupted(rec, nBefore)
	m := x.Sc.Module
	run := rec.Op.Run
	resp := rec.Resp
	base := run.Args.Base
	changed := Diff(rec.Pre, rec.Post)

	if resp != nil && len(resp.Late) > 0 {
		// L1: when Execute returns - with or without an error - the run is over. A gengo that hands control
		// back to a cancelled caller while a callback is still running, and then goes on writing, makes the
		// state of the module depend on when the leftover work lands (before or after the caller's next step).
		x.violate(x.Sc.Property, "L1", "still-working-after-execute-returned", fmt.Sprintf("after Execute returned %q: %s", resp.ExecErr, strings.Join(resp.Late, "; ")), nil)
	}

	processed := rec.Direct
	if run.Args.All {
		processed = rec.Local
	}
	procDir := map[string]int{}
	for _, pi := range processed {
		procDir[filepath.Clean(m.Pkgs[pi].Dir)] = pi
	}

	// which faults fired
	firedOSWrite := false // error injected on open/write of an output file or gengo.sum
	firedAny := rec.Killed
	sumReadFault := false
	hashFaultFiles := map[string]bool{} // files whose second open during load (the directory hash) was made to fail
	editPaths := map[string]bool{}
	if resp != nil {
		if len(resp.Fired) > 0 {
			firedAny = true
		}
		for _, e := range resp.Events {
			if e.Fault == "" {
				continue
			}
			isErr := strings.HasPrefix(e.Fault, "errno:") || strings.HasPrefix(e.Fault, "short:")
			if e.Fault == "edit" {
				continue
			}
			if !isErr {
				continue
			}
			bn := filepath.Base(e.Path)
			output := e.Path == "gengo.sum" || strings.HasPrefix(bn, base+".")
			switch e.Kind {
			case "os.write", "os.writeat", "os.rename", "os.remove", "os.sync", "os.close", "os.readfrom":
				if output {
					firedOSWrite = true
				}
			case "os.open":
				if output && e.N&(os.O_WRONLY|os.O_RDWR|os.O_CREATE|os.O_TRUNC) != 0 {
					firedOSWrite = true
				} else if e.Path == "gengo.sum" {
					sumReadFault = true
				} else if e.Exec < 0 && e.Nth >= 1 {
					// during load a source file is opened first by the parser, then by the directory hash
					hashFaultFiles[e.Path] = true
				}
			case "os.read":
				if e.Path == "gengo.sum" {
					sumReadFault = true
				}
			}
		}
	}
	for _, f := range run.Faults {
		if f.Do == "edit" {
			editPaths[f.EditPath] = true
		}
	}

	// A directory hash is recursive, so a file of a nested package is also opened by the hash of every
	// enclosing package, in an order the trace does not reveal: every local package whose directory
	// contains the file MAY have lost its load-time hash; if there is only one, it certainly has.
	hashFaultPkgs := map[string]bool{} // certainly failed
	rec.HashMaybeFailed = map[string]bool{}
	for f := range hashFaultFiles {
		var cands []int
		for _, pi := range rec.Local {
			d := filepath.Clean(m.Pkgs[pi].Dir)
			if d == "." || filepath.Clean(filepath.Dir(f)) == d || strings.HasPrefix(f, d+"/") {
				cands = append(cands, pi)
			}
		}
		for _, pi := range cands {
			rec.HashMaybeFailed[m.ImportPath(pi)] = true
		}
		if len(cands) == 1 {
			hashFaultPkgs[filepath.Clean(m.Pkgs[cands[0]].Dir)] = true
			delete(rec.Hload, m.ImportPath(cands[0]))
			delete(rec.HashMaybeFailed, m.ImportPath(cands[0]))
		}
		x.Env.Stats.Add("probe/hash-failed-at-load", 1)
	}

	// ---- T1 / E5: only own output files are touched (every run, also failed and killed ones)
	for _, d := range changed {
		p := DiffPath(d)
		if editPaths[p] {
			continue
		}
		if p == "gengo.sum" {
			if !run.Args.All {
				x.violate("C07", "T1", "sum-touched-without-all", d, nil)
			}
			continue
		}
		dir := filepath.Clean(filepath.Dir(p))
		bn := filepath.Base(p)
		if _, ok := procDir[dir]; ok && strings.HasPrefix(bn, base+".") {
			continue
		}
		class := "foreign-file-touched"
		switch {
		case strings.HasPrefix(bn, base) && !strings.HasPrefix(bn, base+"."):
			class = "lookalike-touched"
		case strings.HasPrefix(bn, base+"."):
			class = "output-of-unprocessed-package-touched"
		}
		x.violate("C07", "T1", class, d, map[string]string{"path": p})
	}

	if rec.Killed || firedOSWrite {
		x.afterCrash = true
	}
	if rec.Killed {
		x.checkKilled(rec)
		if rec.Pre["gengo.sum"] != rec.Post["gengo.sum"] {
			// the process died inside the save of gengo.sum (the trace is lost with it): every package
			// of the run had been completed before the save began
			for _, pi := range rec.Local {
				x.Model.MarkDone(m.ImportPath(pi), rec.Content[m.ImportPath(pi)])
			}
		}
		x.Model.AfterExternal(x.Root)
		return
	}
	if resp == nil {
		return
	}
	if resp.Panic != "" {
		if x.W != nil {
			x.W.Close() // the worker exits after reporting a panic
			x.W = nil
		}
		injected := false
		for _, f := range resp.Fired {
			if strings.HasSuffix(f, ":gen-panic") {
				injected = true
			}
		}
		if !injected {
			if os.Getenv("VERIF_TRACE_STEPS") != "" { // debugging aid
				fmt.Fprintln(os.Stderr, resp.Panic)
			}
			x.violate(x.Sc.Property, "X0", "panic", firstLine(resp.Panic), nil)
		} else {
			// the process died by a panic inside a generator callback, i.e. before the save
			x.afterCrash = true
			x.Env.Stats.Add("fault/panic-fired", 1)
			if run.Args.All && rec.Pre["gengo.sum"] != rec.Post["gengo.sum"] {
				x.violate("C02", "E3", "sum-changed-by-panicking-run", fmt.Sprintf("%s -> %s (the process died by a panic in a generator)", short(rec.Pre["gengo.sum"]), short(rec.Post["gengo.sum"])), nil)
			}
		}
		x.Model.AfterExternal(x.Root)
		return
	}

	// ---- T4: a run whose load fails changes nothing
	if resp.LoadErr != "" {
		if len(changed) > 0 {
			x.violate("C07", "T4", "load-failure-changed-tree", strings.Join(changed, ","), nil)
		}
		if !firedAny && !x.expectLoadFailure() {
			if x.afterCrash {
				// the next run must regenerate instead of choking on half-written output
				x.violate("C02", "E4", "wedged-load-fails", "after a crashed or failed run the module no longer loads: "+firstLine(resp.LoadErr), map[string]string{"error": firstLine(resp.LoadErr)})
				x.wedged = true
			} else {
				x.violate(x.Sc.Property, "X0", "unexpected-load-error", firstLine(resp.LoadErr), map[string]string{"error": firstLine(resp.LoadErr)})
			}
		}
		x.Model.AfterExternal(x.Root)
		return
	}
	success := resp.ExecErr == ""

	// ---- per (package, generator) outcomes from the callback trace
	allScripted := true
	for gi := range run.Gens {
		if run.Gens[gi].Impl == "real" {
			allScripted = false
		}
	}
	type pg struct {
		pi int
		g  *proto.GenScript
		o  genOutcome
	}
	var outcomes []pg
	scriptedError := false
	for _, pi := range processed {
		ip := m.ImportPath(pi)
		if !rec.Executed[ip] {
			continue
		}
		for gi := range run.Gens {
			g := &run.Gens[gi]
			if !hasKnownOutput(g) {
				continue
			}
			o := outcome(g, ip, resp.Events)
			if o.Errored || o.Unparsable {
				scriptedError = true
			}
			outcomes = append(outcomes, pg{pi, g, o})
		}
	}

	// ---- G3 + C05 instance invariant: on every trace, successful or not
	instPkg := map[int]string{}
	for _, e := range resp.Events {
		for _, p := range e.Problems {
			// an inspecting generator found the universe it was handed at odds with go/types
			x.violate("C13", p.Oracle, p.Class, fmt.Sprintf("seen by generator %s in %s: %s", e.Gen, e.Pkg, p.Detail), nil)
		}
		switch e.Kind {
		case "gen", "alias":
			if !strings.HasPrefix(e.Scope, "package") || strings.Contains(e.Scope, "foreign") {
				class := "local-type-passed"
				if strings.Contains(e.Scope, "foreign") {
					class = "foreign-type-passed"
				}
				x.violate("C06", "G3", class, fmt.Sprintf("%s called for %s.%s (%s, %s:%d)", e.Gen, e.Pkg, e.Type, e.Scope, e.File, e.Line), map[string]string{"scope": e.Scope})
			}
			fallthrough
		case "new", "defer":
			if e.Inst > 0 {
				if prev, ok := instPkg[e.Inst]; ok && prev != e.Pkg {
					x.violate("C05", "I1", "instance-shared-across-packages", fmt.Sprintf("generator %s instance #%d used for %s and %s", e.Gen, e.Inst, prev, e.Pkg), nil)
				}
				instPkg[e.Inst] = e.Pkg
			}
		}
	}

	// ---- E1 / F0 / X0: the returned error
	switch {
	case scriptedError && !firedOSWrite:
		if success {
			x.violate("C02", "E1", "error-swallowed", "a generator callback failed or rendered unparseable text but Execute returned nil", nil)
		} else {
			for _, oc := range outcomes {
				if !(oc.o.Errored || oc.o.Unparsable) {
					continue
				}
				ip := m.ImportPath(oc.pi)
				named := strings.Contains(resp.ExecErr, oc.g.Name) && strings.Contains(resp.ExecErr, ip)
				if oc.o.Errored && !named {
					x.violate("C02", "E1", "error-does-not-name-generator-and-package", fmt.Sprintf("want %q and %q in %q", oc.g.Name, ip, firstLine(resp.ExecErr)), nil)
				}
				if oc.o.Unparsable && !oc.o.Errored && !named && !posRe.MatchString(resp.ExecErr) {
					x.violate("C02", "E1", "syntax-error-without-position", firstLine(resp.ExecErr), nil)
				}
				break // only the first failing pair is reached
			}
		}
	case firedOSWrite:
		// Execute may legitimately succeed after a fault it retried; what it may
		// not do is report success with a missing or damaged file (F0, decided
		// below by the file-set and F1-F6 checks of this very run)
		if success {
			x.Env.Stats.Add("probe/success-after-io-fault", 1)
		}
	case !success && allScripted && !firedAny:
		x.violate(x.Sc.Property, "X0", "unexpected-error", firstLine(resp.ExecErr), map[string]string{"error": firstLine(resp.ExecErr)})
	}

	// ---- E2 / E3 after a generator-level failure
	if !success && scriptedError && !firedOSWrite {
		for _, oc := range outcomes {
			if !(oc.o.Errored || oc.o.Unparsable) {
				continue
			}
			f := filepath.Join(m.Pkgs[oc.pi].Dir, base+"."+oc.g.Name+".go")
			if rec.Pre[f] != rec.Post[f] {
				x.violate("C02", "E2", "previous-output-damaged", fmt.Sprintf("%s: %s -> %s", f, short(rec.Pre[f]), short(rec.Post[f])), nil)
			}
			break
		}
	}
	if !success {
		// E3: gengo.sum is not rewritten by a failed run, unless the injected fault was in the save itself
		sumFault := false
		for _, e := range resp.Events {
			if e.Fault != "" && e.Path == "gengo.sum" && e.Kind != "os.read" && !(e.Kind == "os.open" && e.N&(os.O_TRUNC|os.O_CREATE) == 0) {
				sumFault = true
			}
		}
		if !sumFault && rec.Pre["gengo.sum"] != rec.Post["gengo.sum"] {
			x.violate("C02", "E3", "sum-rewritten-by-failed-run", fmt.Sprintf("%s -> %s", short(rec.Pre["gengo.sum"]), short(rec.Post["gengo.sum"])), nil)
		}
	}

	// ---- G1 G2 G4 on the callback trace
	for _, oc := range outcomes {
		x.checkCalls(rec, oc.pi, oc.g, oc.o, success)
	}

	x.nameForms = map[string]map[string]string{}
	defer func() {
		// F7: what a type is called in generated text does not depend on the file it is said in (on what
		// that file said before): one spelling per (way of referring to it, type) across the files of a run
		for _, key := range sortedKeys(x.nameForms) {
			if forms := x.nameForms[key]; len(forms) > 1 {
				var d []string
				for _, f := range sortedKeys(forms) {
					d = append(d, fmt.Sprintf("%q in %s", f, forms[f]))
				}
				x.violate("C01", "F7", "same-type-named-differently-across-files", key+": "+strings.Join(d, ", "), nil)
			}
		}
	}()
	if success {
		// ---- T2 T3 file set, F1-F6 contents
		for _, pi := range processed {
			ip := m.ImportPath(pi)
			dir := m.Pkgs[pi].Dir
			if !rec.Executed[ip] {
				for _, d := range changed {
					if DiffPath(d) == "gengo.sum" {
						continue // (lies in the directory of a package in the module root; governed by T1)
					}
					if filepath.Clean(filepath.Dir(DiffPath(d))) == filepath.Clean(dir) && !editPaths[DiffPath(d)] {
						x.violate("C07", "T3", "skipped-package-modified", d, nil)
					}
				}
				continue
			}
			inRun := map[string]*proto.GenScript{}
			for gi := range run.Gens {
				inRun[base+"."+run.Gens[gi].Name+".go"] = &run.Gens[gi]
			}
			for _, oc := range outcomes {
				if oc.pi != pi {
					continue
				}
				f := filepath.Join(dir, base+"."+oc.g.Name+".go")
				_, exists := rec.Post[f]
				switch {
				case oc.o.Rendered && !exists:
					x.violate("C07", "T2", "rendered-file-missing", f, nil)
					if firedOSWrite {
						x.violate("C01", "F0", "output-missing-after-swallowed-io-error", f, map[string]string{"fired": strings.Join(resp.Fired, ",")})
					}
				case !oc.o.Rendered && oc.o.Ignored:
					if rec.Pre[f] != rec.Post[f] {
						x.violate("C07", "T2", "errignore-did-not-keep-previous-file", fmt.Sprintf("%s: %s -> %s", f, short(rec.Pre[f]), short(rec.Post[f])), nil)
					} else if exists {
						x.Env.Stats.Add("probe/errignore-kept-old-file", 1)
					}
				case !oc.o.Rendered && exists:
					x.violate("C07", "T2", "empty-generator-left-file", f, nil)
				}
				if oc.o.Rendered && exists {
					x.checkFile(rec, oc.pi, oc.g, oc.o, f)
				}
			}
			// stale outputs: Go files of the package named <base>.<x>.go that no generator of this run owns
			for p := range rec.Pre {
				if filepath.Clean(filepath.Dir(p)) != filepath.Clean(dir) {
					continue
				}
				bn := filepath.Base(p)
				if !strings.HasPrefix(bn, base+".") || !strings.HasSuffix(bn, ".go") || strings.HasSuffix(bn, "_test.go") {
					continue
				}
				if _, ok := inRun[bn]; ok {
					continue
				}
				if !x.isGoFileOfPackage(rec, p, m.Pkgs[pi].Name) {
					continue
				}
				if _, still := rec.Post[p]; still {
					x.violate("C07", "T2", "stale-output-not-removed", p, nil)
				} else {
					x.Env.Stats.Add("probe/stale-file-removed", 1)
				}
			}
		}

		// ---- S1: a skip needs a matching record
		for _, pi := range processed {
			ip := m.ImportPath(pi)
			if rec.Executed[ip] {
				continue
			}
			x.Env.Stats.Add("probe/skipped-as-cached", 1)
			why := ""
			lineHashes := ParseSumLines(rec.PreSum)[ip]
			h, hashable := rec.Hload[ip]
			switch {
			case !run.Args.All:
				why = "skipped-without-all"
			case run.Args.Force:
				why = "skipped-despite-force"
			case !rec.HadSum:
				why = "skipped-without-sum-file"
			case len(lineHashes) == 0:
				why = "skipped-without-entry"
			case !hashable:
				why = "skipped-although-directory-unhashable"
			case !contains(lineHashes, h):
				why = "skipped-although-hash-not-recorded"
			case !x.Model.Vouches(ip, lineHashes, rec.Content[ip]):
				why = "skipped-although-directory-changed"
			case !x.Model.IsDone(ip, rec.Content[ip]):
				why = "skipped-although-never-generated-for-this-content"
			}
			if why != "" {
				x.violate("C08", "S1", why, fmt.Sprintf("package %s was not regenerated", ip), map[string]string{"unhashable": fmt.Sprint(rec.Hload[ip] == "")})
			}
		}
		if run.Args.All && run.Args.Force {
			match := false
			for _, pi := range processed {
				ip := m.ImportPath(pi)
				for _, lh := range ParseSumLines(rec.PreSum)[ip] {
					if lh == rec.Hload[ip] {
						match = true
					}
				}
			}
			if match {
				x.Env.Stats.Add("probe/force-with-matching-sum", 1)
			}
		}
		// ---- S5: read faults force regeneration
		if run.Args.All && sumReadFault {
			for _, pi := range processed {
				if ip := m.ImportPath(pi); !rec.Executed[ip] {
					x.violate("C08", "S5", "skipped-although-sum-unreadable", ip, nil)
				}
			}
		}
		for _, pi := range processed {
			if hashFaultPkgs[filepath.Clean(m.Pkgs[pi].Dir)] && !rec.Executed[m.ImportPath(pi)] {
				x.violate("C08", "S5", "skipped-although-hash-failed", m.ImportPath(pi), nil)
			}
		}

		// ---- S2 / S4: the file written by a successful All run
		if run.Args.All {
			x.checkSum(rec)
		}
	}
	x.markDone(rec, success)
	x.Model.AfterExternal(x.Root)
}

// markDone updates the model with the packages whose generation completed in
// this run: all executed ones if Execute succeeded; otherwise those after which
// gengo moved on to the next package or to saving gengo.sum.
func (x *Exec) markDone(rec *StepRecord, success bool) {
	m := x.Sc.Module
	if rec.Resp == nil {
		return
	}
	var order []string // packages in processing order, then "" for the start of the sum save
	for _, e := range rec.Resp.Events {
		switch {
		case e.Kind == "new" && e.Gen == "probe":
			order = append(order, e.Pkg)
		case e.Kind == "os.open" && e.Path == "gengo.sum" && e.Exec >= 0 && e.N&(os.O_WRONLY|os.O_RDWR) != 0:
			order = append(order, "")
		}
	}
	// a package in which a generator callback failed, panicked or rendered garbage was not generated,
	// whatever Execute made of it
	failedIn := map[string]bool{}
	for _, e := range rec.Resp.Events {
		switch e.Fault {
		case "gen-error", "gen-panic", "gen-unparseable":
			failedIn[e.Pkg] = true
		}
	}
	for i, p := range order {
		if p == "" || failedIn[p] {
			continue
		}
		if success || i+1 < len(order) {
			if m.PkgByPath(p) >= 0 {
				x.Model.MarkDone(p, rec.Content[p])
			}
		}
	}
}

func short(fp string) string {
	if fp == "" {
		return "absent"
	}
	if len(fp) > 14 {
		return fp[:14]
	}
	return fp
}

func (x *Exec) expectLoadFailure() bool {
	return x.loadBroken
}

// isGoFileOfPackage parses the package clause of a pre-existing file.
func (x *Exec) isGoFileOfPackage(rec *StepRecord, rel string, pkgName string) bool {
	// the file may be gone now; the driver keeps no contents, so decide from
	// what the scenario planted and from earlier generated outputs
	if c, ok := x.knownGo[rel]; ok {
		return c == pkgName
	}
	return false
}

// noteGoFiles remembers, before a run, which <base>.*.go files are Go files of
// which package (parsed by the driver with go/parser).
func (x *Exec) noteGoFiles(base string) {
	x.knownGo = map[string]string{}
	for _, p := range x.Sc.Module.Pkgs {
		dir := filepath.Join(x.Root, p.Dir)
		ents, err := os.ReadDir(dir)
		if err != nil {
			continue
		}
		for _, e := range ents {
			n := e.Name()
			if e.IsDir() || !strings.HasPrefix(n, base+".") || !strings.HasSuffix(n, ".go") {
				continue
			}
			data, err := os.ReadFile(filepath.Join(dir, n))
			if err != nil {
				continue
			}
			fset := token.NewFileSet()
			f, err := parser.ParseFile(fset, n, data, parser.PackageClauseOnly)
			if err != nil || bytes.Contains(data, []byte("//go:build")) {
				continue
			}
			x.knownGo[filepath.Join(p.Dir, n)] = f.Name.Name
		}
	}
}

// checkKilled: a process that died part-way.
func (x *Exec) checkKilled(rec *StepRecord) {
	run := rec.Op.Run
	if !run.Args.All {
		return
	}
	pre, post := rec.Pre["gengo.sum"], rec.Post["gengo.sum"]
	switch rec.Op.How {
	case "kill-before-save":
		if pre != post {
			x.violate("C02", "E3", "sum-changed-by-killed-run", fmt.Sprintf("%s -> %s (killed before the save)", short(pre), short(post)), nil)
		}
	default:
		if pre == post {
			return
		}
		// inside the save: old content, empty, or a prefix of the new content
		data, err := os.ReadFile(filepath.Join(x.Root, "gengo.sum"))
		if err != nil {
			x.violate("C02", "E3", "sum-removed-by-killed-run", "gengo.sum vanished", nil)
			return
		}
		want := x.expectedSum(rec)
		if !bytes.HasPrefix(want, data) {
			x.violate("C02", "E3", "sum-garbage-after-kill", fmt.Sprintf("%q is not a prefix of %q", clip(string(data)), clip(string(want))), nil)
		} else {
			x.Env.Stats.Add("probe/kill-inside-sum-save", 1)
		}
	}
}

func clip(s string) string {
	if len(s) > 160 {
		return s[:160] + "..."
	}
	return s
}

func (x *Exec) expectedSum(rec *StepRecord) []byte {
	m := x.Sc.Module
	var paths []string
	for _, pi := range rec.Local {
		paths = append(paths, m.ImportPath(pi))
	}
	sort.Strings(paths)
	var b bytes.Buffer
	for _, p := range paths {
		b.WriteString(p + " " + rec.Hload[p] + "\n")
	}
	return b.Bytes()
}

// checkSum: S2 (format, sorted, load-time hashes) and S4 (read-back).
func (x *Exec) checkSum(rec *StepRecord) {
	m := x.Sc.Module
	data, err := os.ReadFile(filepath.Join(x.Root, "gengo.sum"))
	if err != nil {
		x.violate("C08", "S2", "sum-missing-after-successful-run", err.Error(), nil)
		return
	}
	var paths []string
	for _, pi := range rec.Local {
		paths = append(paths, m.ImportPath(pi))
	}
	sort.Strings(paths)
	// the hash a line may carry: the driver's load-time hash; nothing for a directory that cannot be
	// hashed; either of the two where an injected fault may or may not have hit this package's hash
	okHash := func(p, h string) bool {
		want, hashable := rec.Hload[p]
		switch {
		case !hashable:
			return h == ""
		case rec.HashMaybeFailed[p]:
			return h == want || h == ""
		}
		return h == want
	}
	text := string(data)
	lines := strings.Split(strings.TrimSuffix(text, "\n"), "\n")
	if text == "" {
		lines = nil
	}
	bad := ""
	switch {
	case text != "" && !strings.HasSuffix(text, "\n"):
		bad = "sum-content-wrong"
	case len(lines) != len(paths):
		bad = "sum-lines-wrong"
	default:
		var gotPaths []string
		for _, l := range lines {
			gotPaths = append(gotPaths, strings.SplitN(l, " ", 2)[0])
		}
		sorted := append([]string{}, gotPaths...)
		sort.Strings(sorted)
		switch {
		case strings.Join(sorted, "\n") != strings.Join(paths, "\n"):
			bad = "sum-lines-wrong"
		case strings.Join(gotPaths, "\n") != strings.Join(paths, "\n"):
			bad = "sum-not-sorted"
		default:
			for i, l := range lines {
				parts := strings.SplitN(l, " ", 2)
				if len(parts) != 2 || strings.ContainsAny(parts[1], " \t\r") {
					bad = "sum-content-wrong"
				} else if !okHash(paths[i], parts[1]) {
					bad = "sum-hash-not-load-time-hash"
				}
			}
		}
	}
	if bad != "" {
		x.violate("C08", "S2", bad, fmt.Sprintf("got %q want %q", clip(text), clip(string(x.expectedSum(rec)))), nil)
	}
	// S4: reading the file back (gengo's own reader, in the worker) yields the mapping
	if rec.Resp.SumErr != "" {
		x.violate("C08", "S4", "sum-unreadable-after-save", rec.Resp.SumErr, nil)
		return
	}
	entries := 0
	for _, p := range paths {
		if !okHash(p, rec.Resp.Sum[p]) {
			x.violate("C08", "S4", "read-back-differs", fmt.Sprintf("%s: read back %q, load-time hash %q", p, rec.Resp.Sum[p], rec.Hload[p]), nil)
		}
		if rec.Resp.Sum[p] != "" {
			entries++
		}
	}
	if len(rec.Resp.Sum) != entries {
		x.violate("C08", "S4", "read-back-extra-entries", fmt.Sprintf("%d entries, %d of them for the %d local packages", len(rec.Resp.Sum), entries, len(paths)), nil)
	}
}

// checkCalls: G1 G2 G4 for one executed (package, generator).
func (x *Exec) checkCalls(rec *StepRecord, pi int, g *proto.GenScript, o genOutcome, success bool) {
	m := x.Sc.Module
	run := rec.Op.Run
	ip := m.ImportPath(pi)
	wantNamed, wantAlias := m.EnabledTypes(pi, g.Name, run.Args.Globals)
	if g.NoAlias {
		wantAlias = nil
	}
	aliasNames := map[string]bool{}
	inSpec := map[string]bool{}
	for _, td := range m.Pkgs[pi].TypeDecls() {
		inSpec[td.Name] = true
		if td.Alias {
			aliasNames[td.Name] = true
		}
	}
	gotNamed := map[string]int{}
	gotAlias := map[string]int{}
	for _, e := range o.GenEvents {
		if e.Kind == "gen" {
			gotNamed[e.Type]++
			if aliasNames[e.Type] && strings.HasPrefix(e.Scope, "package") {
				x.violate("C06", "G2", "alias-passed-to-generatetype", ip+"."+e.Type, nil)
			}
		} else {
			gotAlias[e.Type]++
			if !aliasNames[e.Type] {
				x.violate("C06", "G2", "non-alias-passed-to-generatealiastype", ip+"."+e.Type, nil)
			}
		}
	}
	for n, c := range gotNamed {
		if c > 1 {
			x.violate("C06", "G1", "type-generated-twice", fmt.Sprintf("%s: %s.%s x%d", g.Name, ip, n, c), nil)
		}
		if ExcludedTypeNames[n] {
			x.violate("C06", "G3", "type-of-excluded-file-generated", fmt.Sprintf("%s: %s.%s (declared only in a file that is not part of the package as built)", g.Name, ip, n), nil)
			continue
		}
		if !inSpec[n] {
			continue // declared by a generated file that an earlier run left in the package: not a type the spec knows
		}
		if !contains(wantNamed, n) && !aliasNames[n] {
			x.violate("C06", "G1", "disabled-type-generated", fmt.Sprintf("%s: %s.%s", g.Name, ip, n), nil)
		}
	}
	for n, c := range gotAlias {
		if c > 1 {
			x.violate("C06", "G2", "alias-generated-twice", fmt.Sprintf("%s: %s.%s x%d", g.Name, ip, n, c), nil)
		}
		if !contains(wantAlias, n) && aliasNames[n] {
			x.violate("C06", "G2", "disabled-alias-generated", fmt.Sprintf("%s: %s.%s", g.Name, ip, n), nil)
		}
	}
	if success {
		local, tp := m.Pkgs[pi].HasShadow()
		for _, n := range wantNamed {
			if gotNamed[n] == 0 {
				x.violate("C06", "G1", "enabled-type-not-generated", fmt.Sprintf("%s: %s.%s", g.Name, ip, n),
					map[string]string{"local_shadow": fmt.Sprint(local), "typeparam_shadow": fmt.Sprint(tp)})
			}
		}
		for _, n := range wantAlias {
			if gotAlias[n] == 0 {
				x.violate("C06", "G2", "enabled-alias-not-generated", fmt.Sprintf("%s: %s.%s", g.Name, ip, n), nil)
			}
		}
		if len(wantNamed)+len(wantAlias) > 0 {
			x.Env.Stats.Add("probe/enabled-types-dispatched", int64(len(wantNamed)+len(wantAlias)))
		}
	}
	// G4: order of callbacks and file creation, from the total event order
	file := filepath.Join(m.Pkgs[pi].Dir, run.Args.Base+"."+g.Name+".go")
	lastGen, firstDefer, lastDefer, openAt := -1, -1, -1, -1
	for _, e := range rec.Resp.Events {
		switch {
		case (e.Kind == "gen" || e.Kind == "alias") && e.Gen == g.Name && e.Pkg == ip:
			lastGen = e.Seq
		case e.Kind == "defer" && e.Gen == g.Name && e.Pkg == ip:
			if firstDefer < 0 {
				firstDefer = e.Seq
			}
			lastDefer = e.Seq
		case e.Kind == "os.open" && strings.HasPrefix(e.Path, file) && e.Exec >= 0 && e.N&(os.O_WRONLY|os.O_RDWR) != 0 && openAt < 0:
			// the destination itself or a temporary file next to it (<file>.tmp ...)
			openAt = e.Seq
		}
	}
	if firstDefer >= 0 && firstDefer < lastGen {
		x.violate("C06", "G4", "defer-ran-before-last-generatetype", fmt.Sprintf("%s/%s: defer at %d, last GenerateType at %d", g.Name, ip, firstDefer, lastGen), nil)
	}
	if openAt >= 0 && (lastDefer > openAt || lastGen > openAt) {
		x.violate("C06", "G4", "file-opened-before-callbacks-finished", fmt.Sprintf("%s/%s: open at %d, last callback at %d", g.Name, ip, openAt, max(lastDefer, lastGen)), nil)
	}
	if success && o.DeferRun != o.DeferReg {
		x.violate("C06", "G4", "defer-not-run-exactly-once", fmt.Sprintf("%s/%s: %d registered, %d run", g.Name, ip, o.DeferReg, o.DeferRun), nil)
	}
	if !success && o.DeferRun > o.DeferReg {
		x.violate("C06", "G4", "defer-run-more-than-once", fmt.Sprintf("%s/%s: %d registered, %d run", g.Name, ip, o.DeferReg, o.DeferRun), nil)
	}
	if o.DeferRun > 0 {
		x.Env.Stats.Add("probe/defer-callbacks-run", int64(o.DeferRun))
	}
}

func contains(xs []string, s string) bool {
	for _, x := range xs {
		if x == s {
			return true
		}
	}
	return false
}

// staticRendered says, from the spec and the script alone, whether generator g renders anything for
// package pi: 1 yes, 0 no, -1 undetermined (an enabled type answers ErrIgnore: the previous file decides).
func staticRendered(m *ModuleSpec, g *proto.GenScript, pi int, globals map[string][]string) int {
	named, aliases := m.EnabledTypes(pi, g.Name, globals)
	if g.NoAlias {
		aliases = nil
	}
	ip := m.ImportPath(pi)
	rendered := 0
	look := func(rules map[string]proto.Rule, names []string, isNamed bool) bool {
		for _, n := range names {
			rule := lookupRule(rules, ip, n)
			if isNamed && (rule.Ret == "ignore" || rule.Ret == "wrapped-ignore") {
				return false
			}
			if partsNonEmpty(rule.Render) {
				rendered = 1
			}
			for _, d := range rule.Defers {
				if partsNonEmpty(d.Render) {
					rendered = 1
				}
			}
		}
		return true
	}
	if !look(g.Rules, named, true) || !look(g.AliasRules, aliases, false) {
		return -1
	}
	return rendered
}

// checkFinalState: C07-T5. In a history whose runs all use the same generators, once a fault-free All
// run has succeeded every local package - regenerated or skipped as cached - holds exactly the files
// its generators render: a cached package is one whose work was really done.
func (x *Exec) checkFinalState() {
	if x.wedged {
		return
	}
	var last *StepRecord
	for i := len(x.Steps) - 1; i >= 0; i-- {
		if x.Steps[i].Op.Kind == "run" {
			last = x.Steps[i]
			break
		}
	}
	if last == nil || last.Resp == nil || last.Killed || last.Resp.LoadErr != "" || last.Resp.ExecErr != "" || last.Resp.Panic != "" {
		return
	}
	run := last.Op.Run
	if !run.Args.All || len(run.Faults) > 0 {
		return
	}
	m := x.Sc.Module
	for _, pi := range last.Local {
		for gi := range run.Gens {
			g := &run.Gens[gi]
			if !isScripted(g) {
				continue
			}
			want := staticRendered(m, g, pi, run.Args.Globals)
			if want < 0 {
				continue
			}
			f := filepath.Join(m.Pkgs[pi].Dir, run.Args.Base+"."+g.Name+".go")
			_, exists := last.Post[f]
			x.Env.Stats.Add("probe/final-state-checked", 1)
			switch {
			case want == 1 && !exists:
				x.violate("C07", "T5", "output-missing-in-final-state", fmt.Sprintf("%s (package executed in the last run: %v)", f, last.Executed[m.ImportPath(pi)]), nil)
			case want == 0 && exists:
				x.violate("C07", "T5", "stale-output-in-final-state", fmt.Sprintf("%s (package executed in the last run: %v)", f, last.Executed[m.ImportPath(pi)]), nil)
			}
		}
	}
}

// checkInterrupted: C02-E6. The caller's context was cancelled while the run was in progress. gengo may
// ignore that or fail with an error; what it may not do is return nil from a run it cut short - that
// marks work as done that was never done.
func (x *Exec) checkInterrupted(rec *StepRecord, nBefore int) {
	if rec.Resp == nil || rec.Resp.ExecErr != "" || rec.Resp.LoadErr != "" || rec.Resp.Panic != "" {
		return
	}
	// E8: an I/O error hit an output file, Execute returned nil all the same, and the output is not what
	// was rendered: the failure was swallowed and (with All) the package is recorded as done
	ioFault := false
	for _, e := range rec.Resp.Events {
		if (strings.HasPrefix(e.Fault, "errno:") || strings.HasPrefix(e.Fault, "short:")) && e.Exec >= 0 && e.Kind != "os.read" && e.Path != "gengo.sum" {
			ioFault = true
		}
	}
	if ioFault {
		for _, v := range x.Viol[nBefore:] {
			if (v.Property == "C01" && (v.Oracle == "F0" || v.Oracle == "F1" || v.Oracle == "F4")) || v.Key() == "C07/T2/rendered-file-missing" {
				x.violate("C02", "E8", "io-error-swallowed", "an I/O error on an output file was injected, Execute returned nil, but "+v.Key()+": "+v.Detail, nil)
				break
			}
		}
	}
	if rec.Resp.FirstExecErr != "" {
		// Execute failed and the caller called it again on the same executor: the second call must not
		// trust anything the failed call left in memory
		x.Env.Stats.Add("probe/retry-on-same-executor", 1)
		for _, v := range x.Viol[nBefore:] {
			if v.Property == "C08" && v.Oracle == "S1" {
				x.violate("C02", "E7", "retry-on-same-executor-trusts-failed-run", "Execute failed ("+firstLine(rec.Resp.FirstExecErr)+"), the retry on the same executor returned nil but "+v.Class+": "+v.Detail, nil)
				return
			}
		}
	}
	cancelled := false
	for _, f := range rec.Resp.Fired {
		if strings.HasSuffix(f, ":cancel") {
			cancelled = true
		}
	}
	if !cancelled {
		return
	}
	x.Env.Stats.Add("fault/cancel-fired", 1)
	for _, v := range x.Viol[nBefore:] {
		switch v.Key() {
		case "C06/G1/enabled-type-not-generated", "C06/G2/enabled-alias-not-generated", "C07/T2/rendered-file-missing",
			"C08/S1/skipped-without-sum-file", "C08/S1/skipped-without-entry", "C08/S1/skipped-although-hash-not-recorded",
			"C08/S1/skipped-although-never-generated-for-this-content", "C08/S1/skipped-despite-force", "C08/S1/skipped-without-all":
			x.violate("C02", "E6", "interrupted-run-reports-success", "the context was cancelled mid-run, Execute returned nil, but the run is incomplete: "+v.Key()+": "+v.Detail, nil)
			return
		}
	}
}
