package simsync

import (
	"sync"
	"time"
)

// The simulated clock of inflsim: time.Now/Since/Until/Sleep inside pkg/inflector/... are rewritten to
// the functions below. The worker switches it on, lets it jump between histories (a process that has
// been alive for minutes or hours) and gives every scheduling step (or every sequential call) a duration.
var clk = struct {
	mu   sync.Mutex
	on   bool
	now  time.Time
	step time.Duration
}{on: true, now: time.Date(2026, 3, 4, 5, 6, 7, 0, time.UTC)}

// ClockOn is kept for callers: the simulated clock runs from process start (package-level variables
// of the code under test may read it before main).
func ClockOn() {}

// ClockAdvance lets d pass at once.
func ClockAdvance(d time.Duration) {
	clk.mu.Lock()
	clk.now = clk.now.Add(d)
	clk.mu.Unlock()
}

// ClockStep sets how long one scheduling step (or one ClockTick) takes.
func ClockStep(d time.Duration) {
	clk.mu.Lock()
	clk.step = d
	clk.mu.Unlock()
}

// ClockTick lets one step pass (the scheduler calls it at every decision, the worker per sequential call).
func ClockTick() { clockTick() }

func clockTick() {
	clk.mu.Lock()
	if clk.on {
		clk.now = clk.now.Add(clk.step)
	}
	clk.mu.Unlock()
}

// Now is time.Now for instrumented code.
func Now() time.Time {
	clk.mu.Lock()
	defer clk.mu.Unlock()
	if !clk.on {
		return time.Now()
	}
	return clk.now
}

// Since is time.Since for instrumented code.
func Since(t time.Time) time.Duration { return Now().Sub(t) }

// Until is time.Until for instrumented code.
func Until(t time.Time) time.Duration { return t.Sub(Now()) }

// Sleep is time.Sleep for instrumented code: simulated time passes at once; inside a scheduled run it
// is also a scheduling point.
func Sleep(d time.Duration) {
	clk.mu.Lock()
	on := clk.on
	if on && d > 0 {
		clk.now = clk.now.Add(d)
	}
	clk.mu.Unlock()
	if !on {
		time.Sleep(d)
		return
	}
	Yield("time.Sleep")
}
