// Package simsync provides cooperative replacements for the primitives of
// package sync. The build overlay rewrites `sync.X` in pkg/inflector/... to
// `simsync.X`, so that every synchronisation point of the code under test
// becomes a point where the simulator's scheduler decides which goroutine
// runs next. Exactly one simulated goroutine runs at a time; the list of the
// scheduler's choices is the schedule, and feeding it back replays the run.
//
// Outside a scheduled run (package init, the sequential reference run) the
// primitives behave like the originals, protected by a real mutex.
package simsync

import (
	"fmt"
	"sort"
	"sync"
)

// Locker is passed through unchanged.
type Locker = sync.Locker

// Pool replaces sync.Pool: a last-in-first-out free list with a scheduling point before every Get and
// Put. (sync.Pool may drop items at any time; one that never does is a legal behaviour, and the one
// under which an object that was put back twice is handed out twice.)
type Pool struct {
	New   func() any
	items []any
}

func (p *Pool) enter(label string) func() {
	if s := cur(); s != nil {
		s.yield(label)
		return func() {}
	}
	direct.Lock()
	return direct.Unlock
}

// Get takes the most recently returned object, or calls New.
func (p *Pool) Get() any {
	defer p.enter("pool.Get")()
	if n := len(p.items); n > 0 {
		x := p.items[n-1]
		p.items = p.items[:n-1]
		return x
	}
	if p.New != nil {
		return p.New()
	}
	return nil
}

// Put returns an object to the free list.
func (p *Pool) Put(x any) {
	if x == nil {
		return
	}
	defer p.enter("pool.Put")()
	p.items = append(p.items, x)
}

type evKind int

const (
	evYield evKind = iota
	evBlock
	evExit
)

type event struct {
	kind  evKind
	gid   int
	label string
}

// Step is one scheduling decision.
type Step struct {
	Gid   int    `json:"g"`
	Label string `json:"l,omitempty"` // where the chosen goroutine was parked
}

// Sched is the scheduler of one history.
type Sched struct {
	mu       sync.Mutex
	gates    []chan struct{}
	events   chan event
	runnable []int
	blocked  map[int]string
	parked   map[int]string // label each goroutine is parked at
	current  int
	active   bool

	choose func(runnable []int) int // returns an index into runnable

	Steps     []Step
	Deadlock  bool
	Contended map[string]int // probes: label -> count
	stepCount int
}

var (
	global   *Sched
	globalMu sync.Mutex
	direct   sync.Mutex // serialises primitives outside scheduled runs
)

func cur() *Sched {
	globalMu.Lock()
	s := global
	globalMu.Unlock()
	if s != nil && s.active {
		return s
	}
	return nil
}

// Run executes the client functions as simulated goroutines. choose picks the
// next goroutine among the runnable ones (index into the slice, which is
// sorted by gid). It returns after all have finished or a deadlock is found.
func Run(clients []func(), choose func(runnable []int) int) *Sched {
	return RunWith(clients, choose, nil)
}

// RunWith is Run with a callback that receives the scheduler before the first
// goroutine starts (so that clients can read the step counter).
func RunWith(clients []func(), choose func(runnable []int) int, onStart func(*Sched)) *Sched {
	s := &Sched{
		events:    make(chan event),
		blocked:   map[int]string{},
		parked:    map[int]string{},
		choose:    choose,
		Contended: map[string]int{},
	}
	for gid, f := range clients {
		gate := make(chan struct{})
		s.gates = append(s.gates, gate)
		s.runnable = append(s.runnable, gid)
		s.parked[gid] = "start"
		go func(gid int, f func()) {
			<-gate
			f()
			s.events <- event{kind: evExit, gid: gid}
		}(gid, f)
	}
	if onStart != nil {
		onStart(s)
	}
	globalMu.Lock()
	global = s
	s.active = true
	globalMu.Unlock()
	defer func() {
		globalMu.Lock()
		s.active = false
		global = nil
		globalMu.Unlock()
	}()

	for {
		s.mu.Lock()
		if len(s.runnable) == 0 {
			if len(s.blocked) > 0 {
				s.Deadlock = true
			}
			s.mu.Unlock()
			return s
		}
		i := s.choose(append([]int{}, s.runnable...))
		if i < 0 || i >= len(s.runnable) {
			i = 0
		}
		gid := s.runnable[i]
		s.current = gid
		s.Steps = append(s.Steps, Step{Gid: gid, Label: s.parked[gid]})
		s.stepCount++
		clockTick()
		s.mu.Unlock()

		s.gates[gid] <- struct{}{}
		ev := <-s.events

		s.mu.Lock()
		switch ev.kind {
		case evYield:
			s.parked[gid] = ev.label
		case evBlock:
			s.remove(gid)
			s.blocked[gid] = ev.label
			s.parked[gid] = ev.label
		case evExit:
			s.remove(gid)
			delete(s.parked, gid)
		}
		s.mu.Unlock()
	}
}

func (s *Sched) remove(gid int) {
	for i, g := range s.runnable {
		if g == gid {
			s.runnable = append(s.runnable[:i], s.runnable[i+1:]...)
			return
		}
	}
}

// BlockedReasons describes the goroutines left blocked by a deadlock.
func (s *Sched) BlockedReasons() []string {
	var out []string
	for g, r := range s.blocked {
		out = append(out, fmt.Sprintf("g%d:%s", g, r))
	}
	return out
}

// yield parks the running goroutine at label and lets the scheduler choose.
func (s *Sched) yield(label string) {
	gid := s.current
	s.events <- event{kind: evYield, gid: gid, label: label}
	<-s.gates[gid]
}

// block parks the running goroutine until wake makes it runnable again.
func (s *Sched) block(label string) {
	gid := s.current
	s.events <- event{kind: evBlock, gid: gid, label: label}
	<-s.gates[gid]
}

// wake makes blocked goroutines runnable (called by the running goroutine).
func (s *Sched) wake(gids []int) {
	s.mu.Lock()
	defer s.mu.Unlock()
	for _, g := range gids {
		if _, ok := s.blocked[g]; ok {
			delete(s.blocked, g)
			// keep runnable sorted by gid so that choices are canonical
			pos := len(s.runnable)
			for i, r := range s.runnable {
				if r > g {
					pos = i
					break
				}
			}
			s.runnable = append(s.runnable, 0)
			copy(s.runnable[pos+1:], s.runnable[pos:])
			s.runnable[pos] = g
		}
	}
}

func (s *Sched) probe(label string) {
	s.mu.Lock()
	s.Contended[label]++
	s.mu.Unlock()
}

// Yield is a bare scheduling point (used by simatomic before every atomic operation); outside a
// scheduled run it does nothing.
func Yield(label string) {
	if s := cur(); s != nil {
		s.yield(label)
	}
}

// ---- Map -----------------------------------------------------------------------

// Map replaces sync.Map: a plain map whose every operation is one atomic step
// preceded by a scheduling point (complete for observable behaviour because
// the real sync.Map is linearizable per operation).
type Map struct {
	m map[any]any
}

func (m *Map) enter(label string) func() {
	if s := cur(); s != nil {
		s.yield(label)
		return func() {}
	}
	direct.Lock()
	return direct.Unlock
}

func (m *Map) init() {
	if m.m == nil {
		m.m = map[any]any{}
	}
}

func (m *Map) Load(key any) (value any, ok bool) {
	defer m.enter("map.Load")()
	m.init()
	value, ok = m.m[key]
	return
}

// published is a scheduling point right AFTER an operation that made something visible to other
// goroutines: the publisher may lose the processor before its next instruction, whatever that is
// (also where the code goes on with operations the simulator does not see: channels, plain memory).
func published(label string) {
	if s := cur(); s != nil {
		s.yield(label)
	}
}

func (m *Map) Store(key, value any) {
	defer published("after map.Store")
	defer m.enter("map.Store")()
	m.init()
	m.m[key] = value
}

func (m *Map) LoadOrStore(key, value any) (actual any, loaded bool) {
	defer func() {
		if !loaded {
			published("after map.LoadOrStore")
		}
	}()
	defer m.enter("map.LoadOrStore")()
	m.init()
	if v, ok := m.m[key]; ok {
		return v, true
	}
	m.m[key] = value
	return value, false
}

func (m *Map) LoadAndDelete(key any) (value any, loaded bool) {
	defer m.enter("map.LoadAndDelete")()
	m.init()
	value, loaded = m.m[key]
	delete(m.m, key)
	return
}

func (m *Map) Delete(key any) {
	defer m.enter("map.Delete")()
	m.init()
	delete(m.m, key)
}

func (m *Map) Swap(key, value any) (previous any, loaded bool) {
	defer m.enter("map.Swap")()
	m.init()
	previous, loaded = m.m[key]
	m.m[key] = value
	return
}

func (m *Map) CompareAndSwap(key, old, new any) (swapped bool) {
	defer m.enter("map.CompareAndSwap")()
	m.init()
	if v, ok := m.m[key]; ok && v == old {
		m.m[key] = new
		return true
	}
	return false
}

func (m *Map) CompareAndDelete(key, old any) (deleted bool) {
	defer m.enter("map.CompareAndDelete")()
	m.init()
	if v, ok := m.m[key]; ok && v == old {
		delete(m.m, key)
		return true
	}
	return false
}

func (m *Map) Clear() {
	defer m.enter("map.Clear")()
	m.m = map[any]any{}
}

// Range snapshots the entries (one step) and yields between callbacks.
func (m *Map) Range(f func(key, value any) bool) {
	type kv struct{ k, v any }
	var snap []kv
	func() {
		defer m.enter("map.Range")()
		m.init()
		for k, v := range m.m {
			snap = append(snap, kv{k, v})
		}
		// (a fixed order: the iteration order of the real sync.Map is unspecified, and the schedule must replay)
		sort.Slice(snap, func(a, b int) bool { return fmt.Sprint(snap[a].k) < fmt.Sprint(snap[b].k) })
	}()
	for _, e := range snap {
		if s := cur(); s != nil {
			s.yield("map.Range.next")
		}
		if !f(e.k, e.v) {
			return
		}
	}
}

// ---- Once and friends ----------------------------------------------------------

type onceState struct {
	state    int // 0 idle, 1 running, 2 done
	waiters  []int
	panicked bool
	pval     any
	real     sync.Mutex // direct mode
}

// do runs f exactly once with the semantics of sync.Once.Do: other callers
// wait until the first call has returned.
func (o *onceState) do(f func()) (ran bool) {
	s := cur()
	if s == nil {
		o.real.Lock()
		defer o.real.Unlock()
		if o.state == 2 {
			return false
		}
		ran = true
		defer func() { o.state = 2 }()
		func() {
			defer func() {
				if r := recover(); r != nil {
					o.panicked, o.pval = true, r
				}
			}()
			f()
		}()
		return
	}
	s.yield("once.enter")
	switch o.state {
	case 2:
		return false
	case 1:
		s.probe("once-contended")
		o.waiters = append(o.waiters, s.current)
		s.block("once.wait")
		return false
	}
	o.state = 1
	s.yield("once.run")
	func() {
		defer func() {
			if r := recover(); r != nil {
				o.panicked, o.pval = true, r
			}
		}()
		f()
	}()
	o.state = 2
	w := o.waiters
	o.waiters = nil
	s.wake(w)
	s.yield("once.done")
	return true
}

// Once replaces sync.Once.
type Once struct{ o onceState }

// Do: like sync.Once.Do a panic of f propagates only in the goroutine that
// ran it; later callers return.
func (o *Once) Do(f func()) {
	if o.o.do(f) && o.o.panicked {
		panic(o.o.pval)
	}
}

// OnceFunc replaces sync.OnceFunc.
func OnceFunc(f func()) func() {
	o := &onceState{}
	return func() {
		o.do(f)
		if o.panicked {
			panic(o.pval)
		}
	}
}

// OnceValue replaces sync.OnceValue.
func OnceValue[T any](f func() T) func() T {
	o := &onceState{}
	var result T
	return func() T {
		o.do(func() { result = f() })
		if o.panicked {
			panic(o.pval)
		}
		return result
	}
}

// OnceValues replaces sync.OnceValues.
func OnceValues[T1, T2 any](f func() (T1, T2)) func() (T1, T2) {
	o := &onceState{}
	var r1 T1
	var r2 T2
	return func() (T1, T2) {
		o.do(func() { r1, r2 = f() })
		if o.panicked {
			panic(o.pval)
		}
		return r1, r2
	}
}

// ---- Mutex / RWMutex / WaitGroup ------------------------------------------------

// Mutex replaces sync.Mutex.
type Mutex struct {
	locked  bool
	waiters []int
	real    sync.Mutex
}

func (m *Mutex) Lock() {
	s := cur()
	if s == nil {
		m.real.Lock()
		return
	}
	s.yield("mutex.Lock")
	for m.locked {
		s.probe("mutex-contended")
		m.waiters = append(m.waiters, s.current)
		s.block("mutex.wait")
	}
	m.locked = true
}

func (m *Mutex) TryLock() bool {
	s := cur()
	if s == nil {
		return m.real.TryLock()
	}
	s.yield("mutex.TryLock")
	if m.locked {
		return false
	}
	m.locked = true
	return true
}

func (m *Mutex) Unlock() {
	s := cur()
	if s == nil {
		m.real.Unlock()
		return
	}
	if !m.locked {
		panic("simsync: unlock of unlocked mutex")
	}
	m.locked = false
	w := m.waiters
	m.waiters = nil
	s.wake(w) // all waiters become runnable; the scheduler decides who wins
	s.yield("mutex.Unlock")
}

// RWMutex replaces sync.RWMutex.
type RWMutex struct {
	writer  bool
	readers int
	waiters []int
	real    sync.RWMutex
}

func (m *RWMutex) Lock() {
	s := cur()
	if s == nil {
		m.real.Lock()
		return
	}
	s.yield("rwmutex.Lock")
	for m.writer || m.readers > 0 {
		s.probe("rwmutex-contended")
		m.waiters = append(m.waiters, s.current)
		s.block("rwmutex.wait")
	}
	m.writer = true
}

func (m *RWMutex) Unlock() {
	s := cur()
	if s == nil {
		m.real.Unlock()
		return
	}
	m.writer = false
	w := m.waiters
	m.waiters = nil
	s.wake(w)
	s.yield("rwmutex.Unlock")
}

func (m *RWMutex) RLock() {
	s := cur()
	if s == nil {
		m.real.RLock()
		return
	}
	s.yield("rwmutex.RLock")
	for m.writer {
		s.probe("rwmutex-contended")
		m.waiters = append(m.waiters, s.current)
		s.block("rwmutex.rwait")
	}
	m.readers++
}

func (m *RWMutex) RUnlock() {
	s := cur()
	if s == nil {
		m.real.RUnlock()
		return
	}
	m.readers--
	if m.readers == 0 {
		w := m.waiters
		m.waiters = nil
		s.wake(w)
	}
	s.yield("rwmutex.RUnlock")
}

func (m *RWMutex) RLocker() sync.Locker { return (*rlocker)(m) }

type rlocker RWMutex

func (r *rlocker) Lock()   { (*RWMutex)(r).RLock() }
func (r *rlocker) Unlock() { (*RWMutex)(r).RUnlock() }

// WaitGroup replaces sync.WaitGroup.
type WaitGroup struct {
	n       int
	waiters []int
	real    sync.WaitGroup
}

func (w *WaitGroup) Add(delta int) {
	s := cur()
	if s == nil {
		w.real.Add(delta)
		return
	}
	w.n += delta
	if w.n == 0 {
		ws := w.waiters
		w.waiters = nil
		s.wake(ws)
	}
}

func (w *WaitGroup) Done() { w.Add(-1) }

func (w *WaitGroup) Wait() {
	s := cur()
	if s == nil {
		w.real.Wait()
		return
	}
	s.yield("wg.Wait")
	for w.n > 0 {
		w.waiters = append(w.waiters, s.current)
		s.block("wg.wait")
	}
}
