// Package wk is the driver-side handle of a worker process.
package wk

import (
	"bufio"
	"bytes"
	"encoding/json"
	"errors"
	"fmt"
	"io"
	"os"
	"os/exec"
	"path/filepath"
	"strings"
	"sync"
	"syscall"
	"time"

	"verifharness/proto"
)

// ErrKilled is returned when the worker died from SIGKILL during a request
// (the scheduled crash).
var ErrKilled = errors.New("worker killed")

// RaceError is returned when a worker built with -race died from a data race report.
type RaceError struct{ Report string }

func (e *RaceError) Error() string { return "data race reported by the race detector" }

// PanicError is returned when the worker process died from a panic nobody recovered (for example a
// panic on a goroutine other than the one serving the request).
type PanicError struct{ Report string }

func (e *PanicError) Error() string { return "worker process died from an unrecovered panic" }

// Worker is one child process.
type Worker struct {
	cmd    *exec.Cmd
	reqW   *os.File
	respR  *bufio.Reader
	respF  *os.File
	stderr *bytes.Buffer
	nextID int
	Served int
	mu     sync.Mutex
	dead   bool
}

// Env returns the environment of worker processes: the `go list` subprocess
// gengo starts must use the repository's toolchain and never the network.
func Env(goroot string, gomaxprocs int) []string {
	env := []string{}
	for _, e := range os.Environ() {
		k := e
		if i := strings.IndexByte(e, '='); i >= 0 {
			k = e[:i]
		}
		switch k {
		case "PATH", "GOFLAGS", "GOPROXY", "GOWORK", "GOTOOLCHAIN", "GOSUMDB", "GOMAXPROCS", "PWD", "GO111MODULE", "GOROOT":
			continue
		}
		env = append(env, e)
	}
	env = append(env,
		"PATH="+filepath.Join(goroot, "bin")+":"+os.Getenv("PATH"),
		"GOROOT="+goroot,
		"GOTOOLCHAIN=local", "GOFLAGS=", "GOPROXY=off", "GOWORK=off", "GOSUMDB=off",
		"GORACE=halt_on_error=1 exitcode=66", // only meaningful for workers built with -race
	)
	if gomaxprocs > 0 {
		env = append(env, fmt.Sprintf("GOMAXPROCS=%d", gomaxprocs))
	}
	return env
}

// Start launches a worker.
func Start(bin string, env []string) (*Worker, error) {
	reqR, reqW, err := os.Pipe()
	if err != nil {
		return nil, err
	}
	respR, respW, err := os.Pipe()
	if err != nil {
		return nil, err
	}
	cmd := exec.Command(bin)
	cmd.Env = env
	cmd.Dir = "/"
	cmd.ExtraFiles = []*os.File{reqR, respW}
	stderr := &bytes.Buffer{}
	cmd.Stderr = stderr
	cmd.Stdout = nil
	if err := cmd.Start(); err != nil {
		return nil, err
	}
	reqR.Close()
	respW.Close()
	return &Worker{cmd: cmd, reqW: reqW, respF: respR, respR: bufio.NewReaderSize(respR, 1<<20), stderr: stderr}, nil
}

// Do sends one request. When the worker is killed by the scheduled crash the
// result is (nil, ErrKilled); any other failure is an infrastructure error.
func (w *Worker) Do(req *proto.RunReq, timeout time.Duration) (*proto.RunResp, error) {
	w.mu.Lock()
	w.nextID++
	req.ID = w.nextID
	w.mu.Unlock()
	data, err := json.Marshal(req)
	if err != nil {
		return nil, err
	}
	line, err := w.DoRaw(data, timeout)
	if err != nil {
		return nil, err
	}
	var resp proto.RunResp
	if err := json.Unmarshal(line, &resp); err != nil {
		return nil, fmt.Errorf("bad response: %w", err)
	}
	if resp.ID != req.ID {
		return nil, fmt.Errorf("response id %d for request %d", resp.ID, req.ID)
	}
	return &resp, nil
}

// DoRaw sends one JSON request line and returns the response line.
func (w *Worker) DoRaw(data []byte, timeout time.Duration) ([]byte, error) {
	w.mu.Lock()
	defer w.mu.Unlock()
	if w.dead {
		return nil, fmt.Errorf("worker already dead")
	}
	data = append(append([]byte{}, data...), '\n')
	timer := time.AfterFunc(timeout, func() {
		// watchdog: infrastructure trouble, not a verdict
		_ = w.cmd.Process.Signal(syscall.SIGQUIT)
		time.Sleep(200 * time.Millisecond)
		_ = w.cmd.Process.Kill()
	})
	defer timer.Stop()
	if _, err := w.reqW.Write(data); err != nil {
		return nil, w.fail(fmt.Errorf("write request: %w", err))
	}
	line, err := w.respR.ReadBytes('\n')
	if err != nil {
		return nil, w.fail(err)
	}
	w.Served++
	return line, nil
}

func (w *Worker) fail(cause error) error {
	w.dead = true
	w.reqW.Close()
	err := w.cmd.Wait()
	w.respF.Close()
	var ee *exec.ExitError
	if errors.As(err, &ee) {
		if ws, ok := ee.Sys().(syscall.WaitStatus); ok && ws.Signaled() && (ws.Signal() == syscall.SIGKILL || ws.Signal() == syscall.SIGTERM || ws.Signal() == syscall.SIGINT) {
			if !strings.Contains(w.stderr.String(), "SIGQUIT") {
				return ErrKilled
			}
		}
	}
	if strings.Contains(w.stderr.String(), "WARNING: DATA RACE") {
		return &RaceError{Report: w.stderr.String()}
	}
	if st := w.stderr.String(); strings.HasPrefix(st, "panic: ") || strings.Contains(st, "\npanic: ") || strings.Contains(st, "fatal error: ") {
		return &PanicError{Report: st}
	}
	if cause == io.EOF {
		cause = errors.New("EOF")
	}
	return fmt.Errorf("worker failed (%v, wait: %v): %s", cause, err, tail(w.stderr.String(), 4000))
}

func tail(s string, n int) string {
	if len(s) > n {
		return "..." + s[len(s)-n:]
	}
	return s
}

// Close ends the worker.
func (w *Worker) Close() {
	w.mu.Lock()
	defer w.mu.Unlock()
	if w.dead {
		return
	}
	w.dead = true
	w.reqW.Close()
	done := make(chan struct{})
	go func() { _ = w.cmd.Wait(); close(done) }()
	select {
	case <-done:
	case <-time.After(5 * time.Second):
		_ = w.cmd.Process.Kill()
		<-done
	}
	w.respF.Close()
}

// Stderr returns what the worker wrote to stderr so far.
func (w *Worker) Stderr() string { return w.stderr.String() }
