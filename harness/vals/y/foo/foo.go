// Package foo (y): see verifharness/vals/x/foo.
package foo

type T struct{ N int }
