// Package model holds values whose entries name different packages: the value dumper only writes the
// fields that are set, so which package an entry mentions depends on the entry.
package model

import (
	xfoo "verifharness/vals/x/foo"
	yfoo "verifharness/vals/y/foo"
)

type Holder struct {
	A *xfoo.T
	B *yfoo.T
}

// Table: a registry keyed by name, as a generator might embed it into its output.
var Table = map[string]Holder{
	"alpha":   {A: &xfoo.T{N: 1}},
	"beta":    {B: &yfoo.T{N: 2}},
	"gamma":   {A: &xfoo.T{N: 3}},
	"delta":   {B: &yfoo.T{N: 4}},
	"epsilon": {A: &xfoo.T{N: 5}},
	"zeta":    {B: &yfoo.T{N: 6}},
}

// ByID: the same with keys that are not strings.
var ByID = map[int]Holder{
	7:  {B: &yfoo.T{N: 7}},
	30: {A: &xfoo.T{N: 30}},
	2:  {B: &yfoo.T{N: 2}},
	11: {A: &xfoo.T{N: 11}},
}
