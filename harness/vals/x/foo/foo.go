// Package foo (x) is one of two packages with the same base name whose types only occur in VALUES that
// scripted generators render through snippet.Value (never in the static type of such a value).
package foo

type T struct{ N int }
