// Package proto defines the JSON-lines protocol between the driver and the
// worker processes. It imports nothing from gengo.
package proto

import "verifharness/simrt"

// GenArgs mirrors gengo.GeneratorArgs.
type GenArgs struct {
	Entrypoint []string            `json:"entrypoint"`
	Base       string              `json:"base"`
	All        bool                `json:"all,omitempty"`
	Force      bool                `json:"force,omitempty"`
	Globals    map[string][]string `json:"globals,omitempty"`
}

// Part is one piece of a rendered declaration.
type Part struct {
	Text  string `json:"text,omitempty"`  // verbatim (snippet.Block)
	Ref   string `json:"ref,omitempty"`   // "import/path.Name" rendered with snippet.ID (registers the import)
	State string `json:"state,omitempty"` // "inst-count": decimal count of types this instance has seen; "helper-once": Text only the first time per instance
	Value string `json:"value,omitempty"` // JSON of a map[string]int rendered with snippet.Value
	// Tmpl: a snippet.T template whose @name placeholders are bound to snippet.ID(TArgs[name]).
	Tmpl  string            `json:"tmpl,omitempty"`
	TArgs map[string]string `json:"targs,omitempty"`
	// DocRef: "import/path.Type": render the doc lines Package(path).Doc reports for that type as one comment.
	DocRef string `json:"doc_ref,omitempty"`
	// Results: one comment line per package-level function of the processed package (in name order) with
	// what Package.ResultsOf reports for it - what a generator collecting the errors of handlers does.
	Results bool `json:"results,omitempty"`
	// Via: how the generator hands the part over. "" a snippet built for this call; "expose-shared" (Ref
	// parts) a snippet.PkgExpose value built once per process and reused for every package, generator
	// and run (a package-level variable of the generator's package); "lazy" (Text parts) a snippet.Func
	// closure that reads a scratch field of the generator which is overwritten right after Render returns.
	Via string `json:"via,omitempty"`
	// Locate: "import/path.Name" of a type of a package the processed package imports: a comment saying in
	// which package Context.LocateInPackage finds the type's position (taken from go/types' import graph,
	// without asking gengo for that package first).
	Locate string `json:"locate,omitempty"`
	// Names: two comment lines naming the type being generated, once from its object (snippet.ID(obj)) and once
	// from its qualified name (snippet.ID("path.Name")), in that order or (Flip) the other way round:
	// "// NAMEOF obj path.Name = <text>" / "// NAMEOF ref path.Name = <text>".
	Names bool `json:"names,omitempty"`
	Flip  bool `json:"flip,omitempty"`
	// FieldDocs: one comment line per field of the struct being generated with what Context.Doc reports for
	// the field object (tags in key order, doc lines) - what runtimedoc and the validators do per field.
	FieldDocs bool `json:"field_docs,omitempty"`
	// Octal: `const <Text> = 0644` - a legacy octal literal, which the formatter rewrites to 0o644 for modules whose
	// go directive says 1.13 or later (the one formatting rule that depends on the language version).
	Octal bool `json:"octal,omitempty"`
	// Bulk: a valid declaration of about Bulk KiB (a generated table), named after Text.
	Bulk int `json:"bulk,omitempty"`
}

// Rule says what a scripted generator does for one (package, type).
type Rule struct {
	Render []Part `json:"render,omitempty"`
	Ret    string `json:"ret,omitempty"` // "" | "skip" | "ignore" | "error"
	Defers []Rule `json:"defers,omitempty"`
}

// GenScript describes one generator of a run.
type GenScript struct {
	Name string `json:"name"`
	// Impl: "new" scripted with New; "nonew" scripted, created by reflect.New;
	// "probe" renders nothing, records New; "real" a registered devpkg generator.
	Impl string `json:"impl"`
	// Rules keyed by "<pkgpath> <TypeName>"; AliasRules likewise.
	Rules      map[string]Rule `json:"rules,omitempty"`
	AliasRules map[string]Rule `json:"alias_rules,omitempty"`
	// NoAlias: the generator does not implement AliasGenerator.
	NoAlias bool `json:"no_alias,omitempty"`
	// Scalar (with Impl "nonew" and NoAlias): the generator's Go type is not a struct (`type serialGen int` with
	// pointer receivers) - legal, and just as much created afresh for every package.
	Scalar bool `json:"scalar,omitempty"`
	// Inspect: in every GenerateType call the generator compares the name tables of its own package and
	// of the packages it imports with go/types' scopes, through the public API (C13 seen from inside a run).
	Inspect bool `json:"inspect,omitempty"`
}

// Fault is one entry of a fault plan. The target event is addressed either by
// ExecSeq (sequence number among Execute-phase events) or symbolically by
// (Kind, Path|Gen/Pkg/Type, Nth occurrence).
type Fault struct {
	ExecSeq int    `json:"exec_seq"` // -1: unused
	Kind    string `json:"kind,omitempty"`
	Path    string `json:"path,omitempty"` // relative to the module root
	Gen     string `json:"gen,omitempty"`
	Pkg     string `json:"pkg,omitempty"`
	Type    string `json:"type,omitempty"`
	Nth     int    `json:"nth,omitempty"`   // occurrence index, counted per phase
	Phase   string `json:"phase,omitempty"` // "load" | "exec" | "" (either)
	Off     int64  `json:"off,omitempty"`   // for os.write addressed by byte offset: first write covering Off
	ByOff   bool   `json:"by_off,omitempty"`
	// Do: "errno:<NAME>" | "short:<j>:<NAME>" | "kill" | "kill-after:<j>" |
	// "edit" (external edit of EditPath with EditContent at this instant) |
	// "gen-error" | "gen-unparseable"
	Do          string `json:"do"`
	EditPath    string `json:"edit_path,omitempty"`
	EditContent string `json:"edit_content,omitempty"`
	EditDelete  bool   `json:"edit_delete,omitempty"`
}

// RunReq is one request to a gensim worker.
type RunReq struct {
	ID       int            `json:"id"`
	Root     string         `json:"root"` // module root (absolute); the run's working directory
	Cwd      string         `json:"cwd,omitempty"`
	Args     GenArgs        `json:"args"`
	Gens     []GenScript    `json:"gens"`
	Sched    simrt.Schedule `json:"sched"`
	Faults   []Fault        `json:"faults,omitempty"`
	Universe bool           `json:"universe,omitempty"` // load only and report the universe (C13)
	UniAll   bool           `json:"uni_all,omitempty"`  // report every package, not only module ones
	// UniLocateFirst: call LocateInPackage with positions reached through go/types alone, before the
	// package that contains them has been asked for by path
	UniLocateFirst bool `json:"uni_locate_first,omitempty"`
	// UniMethodsFirst: ask MethodsOf before any other accessor of a package (answers must not depend on the order of questions)
	UniMethodsFirst bool `json:"uni_methods_first,omitempty"`
	ReadSum         bool `json:"read_sum,omitempty"` // report sumfile.Load(root) after the run
	// DriverFailsOnce: the first invocation of the package driver in this request fails (a transient
	// go list failure); later invocations work normally.
	DriverFailsOnce bool `json:"driver_fails_once,omitempty"`
	// FirstGlobals: before the reported Execute, call Execute once on the same executor with these global
	// tags (a driver that loads once and runs several passes with different tags); args are then changed
	// in place to Args.Globals.
	FirstGlobals    map[string][]string `json:"first_globals,omitempty"`
	HasFirstGlobals bool                `json:"has_first_globals,omitempty"`
	// FirstGens: the generators of that first pass, if other than Gens (a driver that runs different
	// generator sets over one loaded context).
	FirstGens []GenScript `json:"first_gens,omitempty"`
	// SecondContext: the root of a copy of the module; a second context is created there BEFORE the
	// reported one and executed (unrecorded) AFTER it has been created: two contexts alive at once.
	SecondContext string `json:"second_context,omitempty"`
	// ViaRegistry: the generators are registered (gengo.Register, again on every request, as a tool does
	// that registers before each run) and then taken from gengo.GetRegisteredGenerators(), keeping what the
	// registry hands out for their names - in its order and as often as it hands them out.
	ViaRegistry bool `json:"via_registry,omitempty"`
	// KeepExecutor: the executor created for this request stays alive in the worker; ReuseExecutor: instead of
	// loading again, call Execute on the executor kept by the previous request (same root, same process) - a
	// tool that loads once and runs several passes, a watch loop. If there is none, load as usual.
	KeepExecutor  bool `json:"keep_executor,omitempty"`
	ReuseExecutor bool `json:"reuse_executor,omitempty"`
	// RetrySameExecutor: if Execute fails, call Execute once more on the SAME executor (a caller's retry
	// loop); the report then describes the second call, FirstExecErr holds the first error.
	RetrySameExecutor bool `json:"retry_same_executor,omitempty"`
	NoEvents          bool `json:"no_events,omitempty"`
}

// Event is one entry of the trace.
type Event struct {
	Seq   int    `json:"seq"`  // global sequence number in this run
	Exec  int    `json:"exec"` // sequence number within the Execute phase, -1 during load
	Kind  string `json:"kind"` // new gen alias defer phase os.<op>
	Gen   string `json:"gen,omitempty"`
	Pkg   string `json:"pkg,omitempty"`
	Type  string `json:"type,omitempty"`
	Scope string `json:"scope,omitempty"` // package | local (from go/types, for gen events)
	Line  int    `json:"line,omitempty"`
	File  string `json:"file,omitempty"`
	Inst  int    `json:"inst,omitempty"`
	Path  string `json:"path,omitempty"`
	N     int    `json:"n,omitempty"`
	Off   int64  `json:"off,omitempty"`
	Fault string `json:"fault,omitempty"`
	Nth   int    `json:"nth,omitempty"` // occurrence index of (kind, path) within its phase
	// Problems: what an inspecting generator found wrong with the universe it was handed (C13).
	Problems []Problem `json:"problems,omitempty"`
}

// Problem is one disagreement between a gengo accessor and go/types.
type Problem struct {
	Oracle string            `json:"oracle"`
	Class  string            `json:"class"`
	Detail string            `json:"detail"`
	Facts  map[string]string `json:"facts,omitempty"`
}

// PkgReport is the C13 report of one loaded package.
type PkgReport struct {
	Path     string    `json:"path"`
	Problems []Problem `json:"problems,omitempty"`
	// Digest of accessor results in a canonical rendering (for U5).
	Digest string `json:"digest"`
	NTypes int    `json:"n_types"`
	NFuncs int    `json:"n_funcs"`
	NConst int    `json:"n_consts"`
	NMeth  int    `json:"n_methods"`
	NImp   int    `json:"n_imports"`
	Module bool   `json:"module"`
}

// RunResp is the answer to a RunReq.
type RunResp struct {
	ID      int    `json:"id"`
	LoadErr string `json:"load_err,omitempty"`
	ExecErr string `json:"exec_err,omitempty"`
	// FirstExecErr / FirstExecuted: what the first of two Execute calls on one executor did.
	FirstExecErr  string   `json:"first_exec_err,omitempty"`
	FirstExecuted []string `json:"first_executed,omitempty"`
	Panic         string   `json:"panic,omitempty"`
	// ReusedExecutor: the request ran on an executor kept from an earlier request
	ReusedExecutor bool `json:"reused_executor,omitempty"`
	// Late: what gengo still did to the module (or which callbacks it still made) after Execute had returned
	Late     []string                  `json:"late,omitempty"`
	Events   []Event                   `json:"events,omitempty"`
	Fired    []string                  `json:"fired,omitempty"` // faults that fired, as "index:kind"
	Sites    map[string]simrt.SiteStat `json:"sites,omitempty"`
	Sum      map[string]string         `json:"sum,omitempty"`
	SumErr   string                    `json:"sum_err,omitempty"`
	Universe []PkgReport               `json:"universe,omitempty"`
	RunIndex int                       `json:"run_index"` // how many runs this process served before
}
