// Package instrument builds the `go build -overlay` that installs the
// simulator's seams: a hook at every file-system entry point of the standard
// library's os package, and order/scheduling seams in gengo's own sources.
// Nothing under /repo or GOROOT is modified; patched copies live in a scratch
// directory referenced from overlay.json.
package instrument

import (
	"fmt"
	"go/ast"
	"go/parser"
	"go/token"
	"os"
	"path/filepath"
	"sort"
)

// osPatch describes one insertion at the top of a function body in package os.
type osPatch struct {
	file string // file name inside $GOROOT/src/os
	recv string // "" or "File"
	name string
	code string
}

const hookDecl = `package os

// VerifHook is the simulator's seam (present only in builds made through the
// verification overlay). It is consulted before each file-system operation.
// err != nil makes the operation fail with err without touching the file
// system, except for "write" with done > 0: the first done bytes are written
// for real and the hook is told through op "write-partial".
var VerifHook func(op string, path string, n int) (done int, err error)
`

var osPatches = []osPatch{
	{"file.go", "", "OpenFile", `
	if VerifHook != nil {
		if _, herr := VerifHook("open", name, flag); herr != nil {
			return nil, &PathError{Op: "open", Path: name, Err: herr}
		}
	}
`},
	{"file.go", "File", "Read", `
	if f != nil && VerifHook != nil {
		if _, herr := VerifHook("read", f.name, len(b)); herr != nil {
			return 0, &PathError{Op: "read", Path: f.name, Err: herr}
		}
	}
`},
	{"file.go", "File", "ReadAt", `
	if f != nil && VerifHook != nil {
		if _, herr := VerifHook("read", f.name, len(b)); herr != nil {
			return 0, &PathError{Op: "read", Path: f.name, Err: herr}
		}
	}
`},
	{"file.go", "File", "Write", `
	if f != nil && VerifHook != nil {
		if done, herr := VerifHook("write", f.name, len(b)); herr != nil {
			vn := 0
			if done > 0 {
				if done > len(b) {
					done = len(b)
				}
				vn, _ = f.write(b[:done])
				if vn < 0 {
					vn = 0
				}
				VerifHook("write-partial", f.name, vn)
			}
			return vn, &PathError{Op: "write", Path: f.name, Err: herr}
		}
	}
`},
	{"file.go", "File", "WriteAt", `
	if f != nil && VerifHook != nil {
		if _, herr := VerifHook("writeat", f.name, len(b)); herr != nil {
			return 0, &PathError{Op: "write", Path: f.name, Err: herr}
		}
	}
`},
	{"file.go", "File", "ReadFrom", `
	if f != nil && VerifHook != nil {
		if _, herr := VerifHook("readfrom", f.name, 0); herr != nil {
			return 0, &PathError{Op: "write", Path: f.name, Err: herr}
		}
	}
`},
	{"file.go", "", "Rename", `
	if VerifHook != nil {
		if _, herr := VerifHook("rename", oldpath+"\x00"+newpath, 0); herr != nil {
			return &LinkError{"rename", oldpath, newpath, herr}
		}
	}
`},
	{"file.go", "", "Mkdir", `
	if VerifHook != nil {
		if _, herr := VerifHook("mkdir", name, 0); herr != nil {
			return &PathError{Op: "mkdir", Path: name, Err: herr}
		}
	}
`},
	{"file.go", "", "Chmod", `
	if VerifHook != nil {
		if _, herr := VerifHook("chmod", name, 0); herr != nil {
			return &PathError{Op: "chmod", Path: name, Err: herr}
		}
	}
`},
	{"file_posix.go", "File", "Close", `
	if f != nil && f.file != nil && VerifHook != nil {
		if _, herr := VerifHook("close", f.name, 0); herr != nil {
			return &PathError{Op: "close", Path: f.name, Err: herr}
		}
	}
`},
	{"file_posix.go", "File", "Truncate", `
	if f != nil && VerifHook != nil {
		if _, herr := VerifHook("ftruncate", f.name, int(size)); herr != nil {
			return &PathError{Op: "truncate", Path: f.name, Err: herr}
		}
	}
`},
	{"file_posix.go", "File", "Sync", `
	if f != nil && VerifHook != nil {
		if _, herr := VerifHook("sync", f.name, 0); herr != nil {
			return &PathError{Op: "sync", Path: f.name, Err: herr}
		}
	}
`},
	{"file_unix.go", "", "Remove", `
	if VerifHook != nil {
		if _, herr := VerifHook("remove", name, 0); herr != nil {
			return &PathError{Op: "remove", Path: name, Err: herr}
		}
	}
`},
	{"file_unix.go", "", "Truncate", `
	if VerifHook != nil {
		if _, herr := VerifHook("truncate", name, int(size)); herr != nil {
			return &PathError{Op: "truncate", Path: name, Err: herr}
		}
	}
`},
	{"file_unix.go", "", "Link", `
	if VerifHook != nil {
		if _, herr := VerifHook("link", oldname+"\x00"+newname, 0); herr != nil {
			return &LinkError{"link", oldname, newname, herr}
		}
	}
`},
	{"file_unix.go", "", "Symlink", `
	if VerifHook != nil {
		if _, herr := VerifHook("symlink", oldname+"\x00"+newname, 0); herr != nil {
			return &LinkError{"symlink", oldname, newname, herr}
		}
	}
`},
	{"stat.go", "", "Stat", `
	if VerifHook != nil {
		if _, herr := VerifHook("stat", name, 0); herr != nil {
			return nil, &PathError{Op: "stat", Path: name, Err: herr}
		}
	}
`},
	{"stat.go", "", "Lstat", `
	if VerifHook != nil {
		if _, herr := VerifHook("lstat", name, 0); herr != nil {
			return nil, &PathError{Op: "lstat", Path: name, Err: herr}
		}
	}
`},
}

// PatchOS writes patched copies of the os sources of goroot into outDir and
// returns overlay entries (original path -> replacement path).
func PatchOS(goroot, outDir string) (map[string]string, error) {
	osDir := filepath.Join(goroot, "src", "os")
	if err := os.MkdirAll(outDir, 0o755); err != nil {
		return nil, err
	}
	byFile := map[string][]osPatch{}
	for _, p := range osPatches {
		byFile[p.file] = append(byFile[p.file], p)
	}
	overlay := map[string]string{}
	for file, patches := range byFile {
		src := filepath.Join(osDir, file)
		data, err := os.ReadFile(src)
		if err != nil {
			return nil, fmt.Errorf("ospatch: %w", err)
		}
		fset := token.NewFileSet()
		af, err := parser.ParseFile(fset, src, data, parser.ParseComments)
		if err != nil {
			return nil, fmt.Errorf("ospatch: %w", err)
		}
		type edit struct {
			off  int
			text string
		}
		var edits []edit
		for _, p := range patches {
			found := false
			for _, d := range af.Decls {
				fd, ok := d.(*ast.FuncDecl)
				if !ok || fd.Name.Name != p.name || fd.Body == nil {
					continue
				}
				recv := ""
				if fd.Recv != nil && len(fd.Recv.List) == 1 {
					if st, ok := fd.Recv.List[0].Type.(*ast.StarExpr); ok {
						if id, ok := st.X.(*ast.Ident); ok {
							recv = id.Name
						}
					}
					if recv == "" {
						recv = "?"
					}
				}
				if recv != p.recv {
					continue
				}
				edits = append(edits, edit{fset.Position(fd.Body.Lbrace).Offset + 1, p.code})
				found = true
			}
			if !found {
				return nil, fmt.Errorf("ospatch: %s: func %s.%s not found", file, p.recv, p.name)
			}
		}
		sort.Slice(edits, func(i, j int) bool { return edits[i].off > edits[j].off })
		out := data
		for _, e := range edits {
			out = append(out[:e.off:e.off], append([]byte(e.text), out[e.off:]...)...)
		}
		dst := filepath.Join(outDir, file)
		if err := os.WriteFile(dst, out, 0o644); err != nil {
			return nil, err
		}
		overlay[src] = dst
	}
	hook := filepath.Join(outDir, "zz_verif_hook.go")
	if err := os.WriteFile(hook, []byte(hookDecl), 0o644); err != nil {
		return nil, err
	}
	overlay[filepath.Join(osDir, "zz_verif_hook.go")] = hook
	return overlay, nil
}
