package instrument

import (
	"fmt"
	"go/ast"
	"go/token"
	"go/types"
	"os"
	"path/filepath"
	"sort"
	"strings"

	"golang.org/x/tools/go/packages"
)

// Site is one seam installed in gengo's sources.
type Site struct {
	ID      string `json:"id"`   // "<rel file>:<line>"
	Kind    string `json:"kind"` // range-map | maps-seq | maps-seq2 | reflect-mapkeys | reflect-maprange | syncmap-range | fileset | sync
	KeyType string `json:"key_type,omitempty"`
}

type edit struct {
	off  int
	text string
	ord  int // tie-break: edits at the same offset keep insertion order
}

// Options selects which rewrites to apply.
type Options struct {
	// Order rewrites map iteration sites and token.NewFileSet (gensim).
	Order bool
	// Sync rewrites package sync selectors in pkg/inflector/... (inflsim).
	Sync bool
}

const (
	simrtImport     = "verifharness/simrt"
	simsyncImport   = "verifharness/simsync"
	simatomicImport = "verifharness/simatomic"
)

// RewriteRepo type-checks the packages of the module at repoDir (the current
// working tree), rewrites every seam site and writes the touched files to
// outDir. It returns overlay entries and the list of sites.
func RewriteRepo(repoDir, outDir string, opt Options) (map[string]string, []Site, error) {
	cfg := &packages.Config{
		Mode: packages.NeedName | packages.NeedFiles | packages.NeedCompiledGoFiles | packages.NeedSyntax |
			packages.NeedTypes | packages.NeedTypesInfo | packages.NeedImports | packages.NeedDeps,
		Dir:   repoDir,
		Tests: false,
		Env:   append(os.Environ(), "GOFLAGS=-mod=mod", "GOPROXY=off", "GOWORK=off"),
	}
	pkgs, err := packages.Load(cfg, "./pkg/...", "./devpkg/...")
	if err != nil {
		return nil, nil, fmt.Errorf("rewrite: load %s: %w", repoDir, err)
	}
	overlay := map[string]string{}
	var sites []Site
	var loadErrs []string
	for _, p := range pkgs {
		for _, e := range p.Errors {
			loadErrs = append(loadErrs, e.Error())
		}
	}
	if len(loadErrs) > 0 {
		return nil, nil, fmt.Errorf("rewrite: %s does not type-check: %s", repoDir, strings.Join(loadErrs, "; "))
	}
	sort.Slice(pkgs, func(i, j int) bool { return pkgs[i].PkgPath < pkgs[j].PkgPath })
	for _, p := range pkgs {
		if strings.Contains(p.PkgPath, "__generators__") {
			continue
		}
		for i, f := range p.Syntax {
			filename := p.CompiledGoFiles[i]
			rel, err := filepath.Rel(repoDir, filename)
			if err != nil || strings.HasPrefix(rel, "..") {
				continue
			}
			if strings.HasSuffix(filename, "_test.go") {
				continue
			}
			edits, fsites, needRT, needSync, needAtomic := rewriteFile(p, f, rel, opt)
			if len(edits) == 0 {
				continue
			}
			data, err := os.ReadFile(filename)
			if err != nil {
				return nil, nil, err
			}
			// import declarations go right after the package clause
			imp := ""
			if needRT {
				imp += "; import __simrt \"" + simrtImport + "\""
			}
			if needSync {
				imp += "; import __simsync \"" + simsyncImport + "\""
			}
			if needAtomic {
				imp += "; import __simatomic \"" + simatomicImport + "\""
			}
			edits = append(edits, edit{off: p.Fset.Position(f.Name.End()).Offset, text: imp, ord: -1})
			sort.SliceStable(edits, func(a, b int) bool {
				if edits[a].off != edits[b].off {
					return edits[a].off > edits[b].off
				}
				return edits[a].ord > edits[b].ord
			})
			out := data
			for _, e := range edits {
				out = append(out[:e.off:e.off], append([]byte(e.text), out[e.off:]...)...)
			}
			dst := filepath.Join(outDir, rel)
			if err := os.MkdirAll(filepath.Dir(dst), 0o755); err != nil {
				return nil, nil, err
			}
			if err := os.WriteFile(dst, out, 0o644); err != nil {
				return nil, nil, err
			}
			overlay[filename] = dst
			sites = append(sites, fsites...)
		}
	}
	return overlay, sites, nil
}

func isPkgFunc(info *types.Info, call *ast.CallExpr, pkgPaths []string, names ...string) (string, bool) {
	sel, ok := call.Fun.(*ast.SelectorExpr)
	if !ok {
		// generic instantiation maps.Keys[M]
		if ix, ok := call.Fun.(*ast.IndexExpr); ok {
			sel, ok = ix.X.(*ast.SelectorExpr)
			if !ok {
				return "", false
			}
		} else {
			return "", false
		}
	}
	obj := info.Uses[sel.Sel]
	fn, ok := obj.(*types.Func)
	if !ok || fn.Pkg() == nil {
		return "", false
	}
	okPkg := false
	for _, pp := range pkgPaths {
		if fn.Pkg().Path() == pp {
			okPkg = true
		}
	}
	if !okPkg {
		return "", false
	}
	if sig, ok := fn.Type().(*types.Signature); ok && sig.Recv() != nil {
		return "", false
	}
	for _, n := range names {
		if fn.Name() == n {
			return n, true
		}
	}
	return "", false
}

func isNamed(t types.Type, pkg, name string) bool {
	if t == nil {
		return false
	}
	if p, ok := t.(*types.Pointer); ok {
		t = p.Elem()
	}
	n, ok := types.Unalias(t).(*types.Named)
	if !ok || n.Obj().Pkg() == nil {
		return false
	}
	return n.Obj().Pkg().Path() == pkg && n.Obj().Name() == name
}

func rewriteFile(p *packages.Package, f *ast.File, rel string, opt Options) (edits []edit, sites []Site, needRT, needSync, needAtomic bool) {
	info := p.TypesInfo
	fset := p.Fset
	ord := 0
	clockSeen, syncKept := false, false
	add := func(pos token.Pos, text string) {
		ord++
		edits = append(edits, edit{off: fset.Position(pos).Offset, text: text, ord: ord})
	}
	siteID := func(pos token.Pos) string {
		return fmt.Sprintf("%s:%d", filepath.ToSlash(rel), fset.Position(pos).Line)
	}
	wrap := func(n ast.Node, fn string, kind string, keyType string) {
		id := siteID(n.Pos())
		// several sites on one line get a column suffix
		for _, s := range sites {
			if s.ID == id {
				id = fmt.Sprintf("%s.%d", id, fset.Position(n.Pos()).Column)
			}
		}
		add(n.Pos(), "__simrt."+fn+"(")
		// closing edits at one offset must nest inside-out
		ord++
		edits = append(edits, edit{off: fset.Position(n.End()).Offset, text: ", \"" + id + "\")", ord: 1000000 - ord})
		sites = append(sites, Site{ID: id, Kind: kind, KeyType: keyType})
		needRT = true
	}
	inflector := strings.Contains(p.PkgPath, "/pkg/inflector")

	ast.Inspect(f, func(n ast.Node) bool {
		switch x := n.(type) {
		case *ast.RangeStmt:
			if !opt.Order {
				return true
			}
			t := info.TypeOf(x.X)
			if t == nil {
				return true
			}
			if m, ok := t.Underlying().(*types.Map); ok {
				wrap(x.X, "Map", "range-map", m.Key().String())
			}
		case *ast.CallExpr:
			if !opt.Order {
				return true
			}
			if name, ok := isPkgFunc(info, x, []string{"maps", "golang.org/x/exp/maps"}, "Keys", "Values", "All"); ok {
				t := info.TypeOf(x)
				// x/exp/maps.Keys returns a slice, std maps.Keys an iterator
				if _, isSlice := t.Underlying().(*types.Slice); isSlice {
					wrap(x, "Slice", "maps-slice", t.String())
				} else if name == "All" {
					wrap(x, "Seq2", "maps-seq2", t.String())
				} else {
					wrap(x, "Seq", "maps-seq", t.String())
				}
				return true
			}
			if name, ok := isPkgFunc(info, x, []string{"go/token"}, "NewFileSet"); ok && name == "NewFileSet" &&
				strings.HasSuffix(p.PkgPath, "/pkg/types") {
				wrap(x, "FileSet", "fileset", "")
				return true
			}
			if sel, ok := x.Fun.(*ast.SelectorExpr); ok {
				if isNamed(info.TypeOf(sel.X), "reflect", "Value") {
					switch sel.Sel.Name {
					case "MapKeys":
						wrap(x, "ReflectKeys", "reflect-mapkeys", "reflect.Value")
					case "MapRange":
						wrap(x, "ReflectRange", "reflect-maprange", "reflect.Value")
					}
				}
			}
		case *ast.SelectorExpr:
			if opt.Order && x.Sel.Name == "Range" && isNamed(info.TypeOf(x.X), "sync", "Map") {
				if s, ok := info.Selections[x]; ok && s.Kind() == types.MethodVal {
					wrap(x, "SyncMapRange", "syncmap-range", "any")
				}
			}
			if opt.Order {
				// the clock seam: time.Now/Since/Until/Sleep read the simulator's clock
				if id, ok := x.X.(*ast.Ident); ok {
					if pn, ok := info.Uses[id].(*types.PkgName); ok && pn.Imported().Path() == "time" {
						switch x.Sel.Name {
						case "Now", "Since", "Until", "Sleep":
							ord++
							edits = append(edits, edit{off: fset.Position(id.Pos()).Offset, text: "__simrt /*", ord: ord})
							ord++
							edits = append(edits, edit{off: fset.Position(id.End()).Offset, text: "*/", ord: ord})
							sites = append(sites, Site{ID: siteID(id.Pos()) + "." + x.Sel.Name, Kind: "clock"})
							if !clockSeen {
								ord++
								edits = append(edits, edit{off: fset.Position(f.End()).Offset, text: "\nvar _ " + id.Name + ".Duration\n", ord: ord})
							}
							clockSeen = true
							needRT = true
						}
					}
				}
			}
			if opt.Sync && inflector {
				if id, ok := x.X.(*ast.Ident); ok {
					if pn, ok := info.Uses[id].(*types.PkgName); ok && pn.Imported().Path() == "time" {
						switch x.Sel.Name {
						case "Now", "Since", "Until", "Sleep":
							// the clock seam of inflsim
							ord++
							edits = append(edits, edit{off: fset.Position(id.Pos()).Offset, text: "__simsync /*", ord: ord})
							ord++
							edits = append(edits, edit{off: fset.Position(id.End()).Offset, text: "*/", ord: ord})
							sites = append(sites, Site{ID: siteID(id.Pos()) + "." + x.Sel.Name, Kind: "clock"})
							if !clockSeen {
								ord++
								edits = append(edits, edit{off: fset.Position(f.End()).Offset, text: "\nvar _ " + id.Name + ".Duration\n", ord: ord})
							}
							clockSeen = true
							needSync = true
						}
					}
				}
			}
			if opt.Sync && inflector {
				if id, ok := x.X.(*ast.Ident); ok {
					if pn, ok := info.Uses[id].(*types.PkgName); ok && pn.Imported().Path() == "sync/atomic" {
						// atomic.X -> __simatomic.X: the same operation preceded by a scheduling point
						ord++
						edits = append(edits, edit{off: fset.Position(id.Pos()).Offset, text: "__simatomic /*", ord: ord})
						ord++
						edits = append(edits, edit{off: fset.Position(id.End()).Offset, text: "*/", ord: ord})
						sites = append(sites, Site{ID: siteID(id.Pos()) + "." + x.Sel.Name, Kind: "atomic"})
						if !needAtomic {
							ord++
							edits = append(edits, edit{off: fset.Position(f.End()).Offset, text: "\nvar _ " + id.Name + ".Int32\n", ord: ord})
						}
						needAtomic = true
					}
					if pn, ok := info.Uses[id].(*types.PkgName); ok && pn.Imported().Path() == "sync" {
						// replace the qualifier only: sync.X -> __simsync.X
						ord++
						off := fset.Position(id.Pos()).Offset
						edits = append(edits, edit{off: off, text: "__simsync /*", ord: ord})
						ord++
						edits = append(edits, edit{off: fset.Position(id.End()).Offset, text: "*/", ord: ord})
						sites = append(sites, Site{ID: siteID(id.Pos()) + "." + x.Sel.Name, Kind: "sync"})
						if !syncKept {
							// keep the original import used
							ord++
							edits = append(edits, edit{off: fset.Position(f.End()).Offset, text: "\nvar _ " + id.Name + ".Locker\n", ord: ord})
						}
						syncKept = true
						needSync = true
					}
				}
			}
		}
		return true
	})
	return
}
