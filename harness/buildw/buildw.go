// Package buildw builds the instrumented worker binaries from /repo's current
// working tree.
package buildw

import (
	"bytes"
	"encoding/json"
	"fmt"
	"os"
	"os/exec"
	"path/filepath"
	"strings"

	"verifharness/instrument"
)

// Result of a worker build.
type Result struct {
	Bin    string
	Sites  []instrument.Site
	GoRoot string
}

// HarnessDir returns the directory of the harness module (where go.mod is).
func HarnessDir() (string, error) {
	if d := os.Getenv("VERIF_HARNESS"); d != "" {
		return d, nil
	}
	exe, err := os.Executable()
	if err == nil {
		// bin/verif -> ../harness
		d := filepath.Join(filepath.Dir(filepath.Dir(exe)), "harness")
		if _, err := os.Stat(filepath.Join(d, "go.mod")); err == nil {
			return d, nil
		}
	}
	if _, err := os.Stat("/verif/harness/go.mod"); err == nil {
		return "/verif/harness", nil
	}
	return "", fmt.Errorf("cannot locate the harness module; set VERIF_HARNESS")
}

func goEnv(harness string, key string) (string, error) {
	cmd := exec.Command("go", "env", key)
	cmd.Dir = harness
	cmd.Env = buildEnv()
	out, err := cmd.Output()
	if err != nil {
		return "", fmt.Errorf("go env %s: %w", key, err)
	}
	return strings.TrimSpace(string(out)), nil
}

func buildEnv() []string {
	env := []string{}
	for _, e := range os.Environ() {
		if strings.HasPrefix(e, "GOFLAGS=") || strings.HasPrefix(e, "GOPROXY=") || strings.HasPrefix(e, "GOWORK=") ||
			strings.HasPrefix(e, "GOSUMDB=") || strings.HasPrefix(e, "GOTOOLCHAIN=") {
			continue
		}
		env = append(env, e)
	}
	// GOSUMDB/GOTOOLCHAIN stay at their defaults: the repository's toolchain
	// (go1.24.2) is selected from the module cache by the go.mod go line.
	return append(env, "GOFLAGS=-mod=mod", "GOPROXY=off", "GOWORK=off")
}

// Options of a build.
type Options struct {
	RepoDir string // default /repo
	Scratch string // directory for overlay files and the binary (caller removes it)
	Cmd     string // "simworker" | "inflworker"
	Order   bool
	Sync    bool
	OSHook  bool
	Race    bool
}

// Build instruments and builds one worker.
func Build(o Options) (*Result, error) {
	harness, err := HarnessDir()
	if err != nil {
		return nil, err
	}
	if o.RepoDir == "" {
		o.RepoDir = "/repo"
	}
	goroot, err := goEnv(harness, "GOROOT")
	if err != nil {
		return nil, err
	}
	overlay := map[string]string{}
	var sites []instrument.Site
	if o.Order || o.Sync {
		ov, s, err := instrument.RewriteRepo(o.RepoDir, filepath.Join(o.Scratch, "ov-"+o.Cmd, "repo"), instrument.Options{Order: o.Order, Sync: o.Sync})
		if err != nil {
			return nil, err
		}
		for k, v := range ov {
			overlay[k] = v
		}
		sites = s
	}
	if o.OSHook {
		ov, err := instrument.PatchOS(goroot, filepath.Join(o.Scratch, "ov-"+o.Cmd, "os"))
		if err != nil {
			return nil, err
		}
		for k, v := range ov {
			overlay[k] = v
		}
	}
	ovFile := filepath.Join(o.Scratch, "ov-"+o.Cmd, "overlay.json")
	if err := os.MkdirAll(filepath.Dir(ovFile), 0o755); err != nil {
		return nil, err
	}
	data, _ := json.MarshalIndent(map[string]any{"Replace": overlay}, "", " ")
	if err := os.WriteFile(ovFile, data, 0o644); err != nil {
		return nil, err
	}
	bin := filepath.Join(o.Scratch, o.Cmd)
	if o.Race {
		bin += "-race"
	}
	args := []string{"build", "-overlay", ovFile, "-o", bin}
	if o.Race {
		args = append(args, "-race")
	}
	if o.OSHook {
		args = append(args, "-tags", "verifhook")
	}
	if o.RepoDir != "/repo" {
		// checking another tree (a scratch worktree with a seeded change): same
		// harness module, the replace directive pointed at that tree
		mod, err := os.ReadFile(filepath.Join(harness, "go.mod"))
		if err != nil {
			return nil, err
		}
		mf := filepath.Join(o.Scratch, "ov-"+o.Cmd, "go.mod")
		if err := os.WriteFile(mf, []byte(strings.ReplaceAll(string(mod), "=> /repo", "=> "+o.RepoDir)), 0o644); err != nil {
			return nil, err
		}
		if sum, err := os.ReadFile(filepath.Join(o.RepoDir, "go.sum")); err == nil {
			_ = os.WriteFile(filepath.Join(o.Scratch, "ov-"+o.Cmd, "go.sum"), sum, 0o644)
		}
		args = append(args, "-modfile="+mf)
	}
	args = append(args, "./cmd/"+o.Cmd)
	cmd := exec.Command("go", args...)
	cmd.Dir = harness
	cmd.Env = buildEnv()
	if o.Race {
		cmd.Env = append(cmd.Env, "CGO_ENABLED=1")
	}
	var buf bytes.Buffer
	cmd.Stdout = &buf
	cmd.Stderr = &buf
	if err := cmd.Run(); err != nil {
		return nil, fmt.Errorf("go %s: %w\n%s", strings.Join(args, " "), err, buf.String())
	}
	return &Result{Bin: bin, Sites: sites, GoRoot: goroot}, nil
}
